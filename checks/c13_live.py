"""Live part of C13 (engine E4): a real gthread worker (threads 2, worker_connections 4, keepalive 1) under clients that idle on
keep-alive, stay silent, disconnect abruptly and pipeline.  Observed: the worker's socket descriptors in /proc/<pid>/fd
(minus its baseline) and the moment the server closes an idle keep-alive connection."""
import os
import socket
import struct
import time


def nsockets(pid):
    n = 0
    try:
        for fd in os.listdir("/proc/%d/fd" % pid):
            try:
                if os.readlink("/proc/%d/fd/%s" % (pid, fd)).startswith("socket:["):
                    n += 1
            except OSError:
                pass
    except OSError:
        return None
    return n


def wait_count(pid, want, timeout):
    t0 = time.monotonic()
    n = nsockets(pid)
    while time.monotonic() - t0 < timeout:
        n = nsockets(pid)
        if n == want:
            return n
        time.sleep(0.05)
    return n


def scenario(run, e4, sc):
    v = []
    info = {}
    KA = 1
    srv = e4.Server("c13", worker_class="gthread", workers=1,
                    settings={"threads": 2, "worker_connections": 4, "keepalive": KA, "timeout": 30, "graceful_timeout": 2}, bind=sc["bind"])
    lag = e4.LagProbe()
    lag.start()
    try:
        srv.start()
        w = srv.wait_workers(1, 25)
        if not w or not srv.wait_listening(5):
            return v, "server did not boot", info
        wpid = w[0]
        time.sleep(0.3)
        base = wait_count(wpid, nsockets(wpid), 0.5)
        info["baseline_sockets"] = base
        maxseen = 0
        # 1. two idle keep-alive connections: server must close them after keepalive, not before
        conns = []
        t_resp = []
        for i in range(2):
            s = e4.connect(srv.addr, 5)
            r = e4.request(srv.addr, "/pid", sock=s, close=False, timeout=5)
            if r["outcome"] != "ok":
                return v, "keep-alive request failed: %s" % r["outcome"], info
            conns.append(s)
            t_resp.append(time.monotonic())
        n = wait_count(wpid, base + 2, 1.0)
        maxseen = max(maxseen, n or 0)
        if n != base + 2 and n is not None and n < base + 2:
            pass    # may already have been reaped if we were slow; judged below through timing
        for s, t0 in zip(conns, t_resp):
            s.settimeout(KA + 6)
            try:
                d = s.recv(100)
                dt = time.monotonic() - t0
                if d:
                    v.append(("bytes-on-idle-keepalive-connection", repr(d[:60])))
                else:
                    info.setdefault("keepalive_close_after", []).append(round(dt, 2))
                    mlag = lag.max_lag(since=t0)
                    if dt < KA - 0.05:
                        v.append(("keepalive-closed-early", "server closed an idle keep-alive connection %.2f s after the response, "
                                  "keepalive=%d" % (dt, KA)))
                    elif dt > KA + 2.5:
                        if mlag > 0.5:
                            return v, "late keep-alive close but scheduling lag %.2f" % mlag, info
                        v.append(("keepalive-not-reaped", "idle keep-alive connection closed after %.2f s, keepalive=%d" % (dt, KA)))
                    else:
                        run.count("live_keepalive_timing_checks")
            except socket.timeout:
                v.append(("keepalive-not-reaped", "idle keep-alive connection still open %d s after the response" % (KA + 6)))
            finally:
                s.close()
        n = wait_count(wpid, base, 3.0)
        if n != base:
            v.append(("connections-left-open-after-clients-left", "%s sockets in the worker, baseline %d, after keep-alive expiry" % (n, base)))
        # 2. one silent connection, one abrupt disconnect mid-request (RST), one pipelined connection
        silent = e4.connect(srv.addr, 5)
        half = e4.connect(srv.addr, 5)
        half.sendall(b"GET /pid HTTP/1.1\r\nHost: h\r\nX-Par")
        time.sleep(0.2)
        n = nsockets(wpid)
        maxseen = max(maxseen, n or 0)
        if isinstance(srv.addr, tuple):
            half.setsockopt(socket.SOL_SOCKET, socket.SO_LINGER, struct.pack("ii", 1, 0))
        half.close()
        pipe = e4.connect(srv.addr, 5)
        pipe.sendall(b"GET /pid HTTP/1.1\r\nHost: h\r\n\r\nGET /pid HTTP/1.1\r\nHost: h\r\n\r\nGET /pid HTTP/1.1\r\nHost: h\r\nConnection: close\r\n\r\n")
        pipe.settimeout(8)
        buf = b""
        try:
            while True:
                d = pipe.recv(65536)
                if not d:
                    break
                buf += d
        except socket.timeout:
            pass
        pipe.close()
        nresp = buf.count(b"HTTP/1.1 200 OK")
        info["pipelined_responses"] = nresp
        if nresp != 3:
            mech = "pipelined-requests-not-all-answered"
            if nresp == 1 and buf.rstrip().endswith(b"|END") and b"Connection: keep-alive" in buf:
                # first request answered in full with keep-alive, the already-buffered next ones never looked at
                mech = "buffered-pipelined-request-not-served"
            v.append((mech, "%d of 3 pipelined requests answered: %r" % (nresp, buf[-120:])))
        else:
            run.count("live_pipeline_checks")
        r = e4.request(srv.addr, "/pid", timeout=5)
        if r["outcome"] != "ok":
            v.append(("worker-stopped-serving", "request while one silent connection is open -> %s" % r["outcome"]))
        silent.close()
        n = wait_count(wpid, base, KA + 4.0)
        info["sockets_at_end"] = n
        if n != base:
            v.append(("connections-left-open-after-clients-left", "%s sockets in the worker, baseline %d, %d s after every client left" % (
                n, base, KA + 4)))
        else:
            run.count("live_back_to_zero_checks")
        if maxseen > base + 4:
            v.append(("capacity-exceeded", "%d client sockets open, worker_connections=4" % (maxseen - base)))
        if not e4.alive(wpid):
            v.append(("worker-died", srv.error_log()[-300:]))
        return v, None, info
    finally:
        lag.stop_flag = True
        srv.cleanup()


def requeue_scenario(run, e4, sc):
    """Three clients are served and idle on keep-alive one behind the other (B, A, C); A and C send another request on the same
    connection before B's keep-alive time is over and idle again; all idle out and are closed by the server; then more clients than
    worker_connections connect and stay silent.  Observed: when the server closes each connection, the worker's socket count back
    at its baseline, and never more than worker_connections client sockets in the worker."""
    v = []
    info = {}
    KA, WC = 2, 6
    srv = e4.Server("c13q", worker_class="gthread", workers=1,
                    settings={"threads": 2, "worker_connections": WC, "keepalive": KA, "timeout": 30, "graceful_timeout": 2}, bind=sc["bind"])
    lag = e4.LagProbe()
    lag.start()
    socks = []
    try:
        srv.start()
        w = srv.wait_workers(1, 25)
        if not w or not srv.wait_listening(5):
            return v, "server did not boot", info
        wpid = w[0]
        time.sleep(0.3)
        base = wait_count(wpid, nsockets(wpid), 0.5)
        info["baseline_sockets"] = base
        t_send, t_resp = {}, {}

        def ask(name, s):
            t_send[name] = time.monotonic()
            r = e4.request(srv.addr, "/pid", sock=s, close=False, timeout=5)
            t_resp[name] = time.monotonic()
            if r["outcome"] != "ok":
                return "request on connection %s failed: %s" % (name, r["outcome"])
            if b"connection: close" in r["data"].lower():
                return "not kept alive"
            return None

        conns = {}
        for name in ("B", "A", "C"):
            conns[name] = e4.connect(srv.addr, 5)
            socks.append(conns[name])
            why = ask(name, conns[name])
            if why:
                return v, "first request on connection %s: %s" % (name, why), info
        t_first = t_resp["B"]
        time.sleep(0.25)
        told_close = set()
        for name in ("A", "C"):
            why = ask(name, conns[name])
            if why == "not kept alive":
                told_close.add(name)        # the server's right; it closes this one itself, at once
            elif why:
                return v, why, info
        info["second_response_said_close"] = sorted(told_close)
        if len(told_close) == 2:
            return v, "no connection was kept alive after its second request", info
        if time.monotonic() - t_first > KA - 0.4:
            return v, "too slow: the second requests were not answered well before the first connection's keep-alive time was over", info
        info["second_requests_after"] = round(time.monotonic() - t_first, 2)
        for name in ("B", "A", "C"):
            s = conns[name]
            s.settimeout(KA + 8)
            try:
                d = s.recv(100)
                now = time.monotonic()
                if d:
                    v.append(("bytes-on-idle-keepalive-connection", repr(d[:60])))
                    continue
                info.setdefault("keepalive_close_after", {})[name] = round(now - t_resp[name], 2)
                if name in told_close:
                    continue
                if now - t_send[name] < KA - 0.05:
                    # counted from the moment the request was SENT: the response, and with it the idle period, began later
                    v.append(("keepalive-closed-early", "server closed idle keep-alive connection %s %.2f s after its last request was "
                              "sent, keepalive=%d" % (name, now - t_send[name], KA)))
                elif now - t_resp[name] > KA + 2.5:
                    if lag.max_lag(since=t_resp[name]) > 0.5:
                        return v, "late keep-alive close but scheduling lag %.2f" % lag.max_lag(since=t_resp[name]), info
                    v.append(("keepalive-not-reaped", "idle keep-alive connection %s closed %.2f s after its last response, keepalive=%d" % (
                        name, now - t_resp[name], KA)))
            except socket.timeout:
                v.append(("keepalive-not-reaped", "idle keep-alive connection %s still open %d s after its last response" % (name, KA + 8)))
            except OSError:
                pass
        for s in conns.values():
            s.close()
        n = wait_count(wpid, base, 4.0)
        if n != base:
            v.append(("connections-left-open-after-clients-left", "%s sockets in the worker, baseline %d, after the keep-alive connections "
                      "idled out and their clients left" % (n, base)))
            return v, None, info
        # more silent clients than worker_connections
        for _ in range(WC + 3):
            socks.append(e4.connect(srv.addr, 5))
        t0 = time.monotonic()
        seen = nsockets(wpid) or 0
        while seen < base + WC and time.monotonic() - t0 < 8:
            time.sleep(0.05)
            seen = max(seen, nsockets(wpid) or 0)
        t1 = time.monotonic()
        while time.monotonic() - t1 < 1.0:
            time.sleep(0.05)
            seen = max(seen, nsockets(wpid) or 0)
        info["client_sockets_with_%d_silent_clients" % (WC + 3)] = seen - base
        if seen > base + WC:
            v.append(("capacity-exceeded", "%d silent clients connected after three keep-alive connections had idled out (two of them "
                      "served a second request while an older one was idle): the worker holds %d client sockets, worker_connections=%d" % (
                          WC + 3, seen - base, WC)))
        elif seen < base + WC:
            return v, "only %d of %d silent clients were accepted within 9 s" % (seen - base, WC), info
        else:
            run.count("live_requeue_then_capacity_checks")
        if not e4.alive(wpid):
            v.append(("worker-died", srv.error_log()[-300:]))
        return v, None, info
    finally:
        lag.stop_flag = True
        for s in socks:
            try:
                s.close()
            except OSError:
                pass
        srv.cleanup()


def plan(run, tier, seed):
    run.require("live_keepalive_timing_checks", "live_back_to_zero_checks")
    n = 2 if tier == "quick" else 8
    out = [{"kind": "live", "scenario": {"bind": "tcp" if i % 2 == 0 else "unix", "idx": i}, "seed": seed, "tier": tier} for i in range(n)]
    # keep-alive connections queued one behind the other, re-used out of order, idling out; then more clients than worker_connections
    run.require("live_requeue_then_capacity_checks")
    for j in range(1 if tier == "quick" else 4):
        out.append({"kind": "live", "scenario": {"requeue": True, "bind": "tcp" if (seed + j) % 2 == 0 else "unix", "idx": "requeue-%d" % j},
                    "seed": seed, "tier": tier})
    # TLS with the handshake in the worker's main loop (do_handshake_on_connect): peers that fail or abandon the handshake
    run.require("live_tls_handshake_inputs", "live_tls_served_then_lingering_clients")
    out.append({"kind": "live", "scenario": {"tls": True, "bind": "tcp", "idx": n, "n": 27 if tier == "quick" else 180}, "seed": seed, "tier": tier})
    return out


def shard(run, sh):
    from vlib import e4_live as e4
    sc = sh["scenario"]
    if sc.get("tls"):
        # the hostile-handshake workload of C05's TLS shard against the threaded worker: the worker must go on serving
        from checks import c05
        r = c05.tls_shard({"kind": "tls", "class": "gthread", "on_connect": True, "n": sc["n"], "seed": sh["seed"], "tier": sh.get("tier", "quick")})
        run.case(("live-tls", sc["n"]))
        run.count("live_tls_handshake_inputs", r.reach.get("tls_inputs", 0))
        run.count("live_tls_served_then_lingering_clients", r.reach.get("tls_served_then_lingering_clients", 0))
        for mech, summary, case in r.violations:
            run.violation("tls/" + mech.split("/", 1)[-1], summary, {"live": sc})
        for reason in getattr(r, "inconclusive", []) or []:
            run.inconclusive_because("tls scenario: %s" % reason)
        return
    reason = None
    for attempt in range(3):
        v, reason, info = (requeue_scenario if sc.get("requeue") else scenario)(run, e4, sc)
        if reason is None or v:
            break
    run.case(("live", sc["bind"], sc["idx"]))
    run.count("live_scenarios")
    for mech, summary in v:
        run.violation(mech, summary + " | info=%s" % info, {"live": sc})
    if reason is not None and not v:
        if "scheduling lag" in reason:
            run.count("cells_skipped_for_scheduling_lag")      # measured lag made the wall-clock judgement unsafe, three times
        else:
            run.inconclusive_because("live scenario %s: %s" % (sc["idx"], reason))
    run.sample({"live": sc, "observed": info}, cap=2)


def replay_case(run, c):
    from vlib import e4_live as e4
    v, reason, info = (requeue_scenario if c["live"].get("requeue") else scenario)(run, e4, c["live"])
    print("info:", info, "inconclusive:", reason)
    return v
