"""C05 Hostile or broken input is contained: error reply, no app call, worker lives.

Monitor (fault enumeration): every prefix of a set of valid requests (= a disconnect at every
offset), the invalid classes of C01 and random / mutated bytes are sent to real worker loops (E2)
with the client half-closing, closing, or closing with unread data pending.  Judged: application
call count versus the strict reference reader, the bytes the client received (ref_resp), closure of
the server end, no exception escaping the loop, and the same worker object serving a canonical
request afterwards.
"""
import json

from vlib import common, gen, ref_http, ref_resp
from vlib.common import Run, rng_for, hexs

PROP = "C05"
RULE = ("case = (input: every prefix of 40+ valid requests incl. CL/chunked bodies, trailers, PROXY line, "
        "100-continue; grammar-generated hostile pipelines; random and mutated bytes) x client behaviour in "
        "{half-close, hold (no close) for complete rejected heads, close without reading, close with unread data pending} "
        "x worker loop in {sync, gthread, async}; non-trivial = non-empty input; distinct = (sha1 input, behaviour, loop)")

BASE_REQUESTS = [
    b"GET / HTTP/1.1\r\nHost: h\r\n\r\n",
    b"GET /a?b=c HTTP/1.0\r\n\r\n",
    b"POST /p HTTP/1.1\r\nHost: h\r\nContent-Length: 11\r\n\r\nhello world",
    b"POST /c HTTP/1.1\r\nHost: h\r\nTransfer-Encoding: chunked\r\n\r\n5\r\nhello\r\n6;x=y\r\n world\r\n0\r\n\r\n",
    b"PUT /t HTTP/1.1\r\nTransfer-Encoding: chunked\r\n\r\n3\r\nabc\r\n0\r\nX-Trailer: v\r\n\r\n",
    b"POST /e HTTP/1.1\r\nHost: h\r\nExpect: 100-continue\r\nContent-Length: 4\r\n\r\nbody",
    b"GET /k HTTP/1.1\r\nHost: h\r\nConnection: keep-alive\r\n\r\nGET /k2 HTTP/1.1\r\nHost: h\r\nConnection: close\r\n\r\n",
    b"OPTIONS * HTTP/1.1\r\nHost: h\r\n\r\n",
    b"HEAD /h HTTP/1.1\r\nHost: h\r\nX-Long: " + b"v" * 200 + b"\r\n\r\n",
    b"POST /g HTTP/1.1\r\nTransfer-Encoding: gzip, chunked\r\n\r\n2\r\nzz\r\n0\r\n\r\n",
]
PROXY_REQUESTS = [
    b"PROXY TCP4 1.2.3.4 5.6.7.8 1111 80\r\nGET /px HTTP/1.1\r\nHost: h\r\n\r\n",
    b"PROXY TCP6 2001:db8::1 ::1 2222 443\r\nPOST /px HTTP/1.1\r\nContent-Length: 3\r\n\r\nabc",
]
CANON = b"GET /alive HTTP/1.1\r\nHost: probe\r\n\r\n"


class App:
    def __init__(self, streaming=False):
        self.calls = 0
        self.paths = []
        self.streaming = streaming

    def __call__(self, environ, start_response):
        self.calls += 1
        self.paths.append(environ.get("RAW_URI"))
        if self.streaming and environ.get("RAW_URI") != "/alive":
            # answers while it is still taking the upload: a broken body is met after the response has started - all the
            # server can do then is cut the response short (a second status line inside it is not an error reply)
            def gen():
                yield b"begin;"
                environ["wsgi.input"].read()
                yield b"ok"
            start_response("200 OK", [])
            return gen()
        environ["wsgi.input"].read()          # whole body first: a broken body fails here
        body = b"alive" if environ.get("RAW_URI") == "/alive" else b"ok"
        start_response("200 OK", [("Content-Length", str(len(body)))])
        return [body]


def allowed_calls(stream, proxy):
    """How many requests the application may legitimately see, per the strict reference."""
    if proxy and (stream.startswith(b"PROXY ") or b"PROXY ".startswith(stream[:6])):
        e = stream.find(b"\r\n")
        if e < 0:
            return 0, []
        stream = stream[e + 2:]
    msgs = ref_http.walk(stream, "drop")
    n = 0
    for m in msgs:
        if m.status == "ok" or (m.status == "incomplete" and m.head_complete) or (m.status == "reject" and m.body_started):
            n += 1
        else:
            break
    return n, msgs


def judge(case, out, app, probe):
    v = []
    stream = bytes.fromhex(case["stream"])
    allowed, msgs = allowed_calls(stream, case.get("proxy", False))
    if app.calls > allowed:
        bad = msgs[allowed].brief() if allowed < len(msgs) else None
        v.append(("rejected-request-reached-application", "application called %d times (paths %r), the strict reading allows %d "
                  "(first non-acceptable message: %s)" % (app.calls, app.paths, allowed, bad)))
    if out["handler_exc"]:
        v.append(("exception-escaped-request-loop/" + out["handler_exc"].split(":")[0], out["handler_exc"][:200]))
    if out["hung"]:
        v.append(("request-loop-did-not-return", "client %s, but the loop was still running at the watchdog" % case["mode"]))
    elif not out["server_sock_closed"]:
        v.append(("server-end-not-closed", "request loop returned but the connection's socket is still open"))
    if case["mode"] == "trickle" and not out["eof"] and not out["hung"]:
        v.append(("rejected-but-connection-left-open/client-keeps-sending", "complete rejected head; the client stayed connected "
                  "and sent a byte every 0.25 s for 3 s: the server never closed (%s)" % out["client_err"]))
    if case["mode"] in ("halfclose", "hold", "trickle") and not out["hung"]:
        data = out["received"]
        if case["mode"] == "hold" and not out["eof"]:
            v.append(("rejected-but-connection-left-open", "complete rejected head, client kept its side open: the server "
                      "did not close (client_err=%s)" % out["client_err"]))
        methods = ["GET"] * 70
        res = ref_resp.parse(data, methods, closed=out["eof"])
        if res.problem == "interim-without-final":
            res.problem = None
        if res.problem in ("truncated-chunked", "truncated-body") and app.streaming and app.calls and out["eof"]:
            run_note = "cut"        # a response that had started was cut short and the connection closed: detectable, allowed
        elif res.problem is not None:
            v.append(("malformed-reply/" + res.problem, "%s %s | wire=%s" % (res.problem, res.detail, hexs(data[:300]))))
        else:
            errs = [i for i, rp in enumerate(res.responses) if rp.status >= 400]
            if errs:
                i = errs[0]
                rp = res.responses[i]
                if i != len(res.responses) - 1:
                    v.append(("reply-after-error-reply", "statuses %r" % [r.status for r in res.responses]))
                if not rp.announces_close():
                    v.append(("error-reply-without-connection-close", "status %d head %r" % (rp.status, rp.head_lines[:5])))
                if not rp.complete:
                    v.append(("error-reply-incomplete", "status %d" % rp.status))
            if len(res.responses) - len(errs) > max(allowed, app.calls):
                v.append(("more-success-replies-than-requests", "statuses %r, allowed %d" % (
                    [r.status for r in res.responses], allowed)))
    if probe is not None:
        ok = probe["received"].startswith(b"HTTP/1.1 200 OK\r\n") and probe["received"].endswith(b"\r\n\r\nalive") \
            and not probe["handler_exc"] and not probe["hung"]
        if not ok:
            v.append(("worker-does-not-serve-next-connection", "after the case, the canonical request got %s (exc=%s hung=%s)" % (
                hexs(probe["received"][:120]), probe["handler_exc"], probe["hung"])))
    return v


def run_case(run, e2, harnesses, case):
    key = (case["kind"], bool(case.get("proxy")), bool(case.get("statsd")))
    stream = bytes.fromhex(case["stream"])
    mode = case["mode"]
    peer = {"unix": "", "unixb": b"", "tcp6": ("::1", 50001, 0, 0)}.get(case.get("peer"), ("127.0.0.1", 50000))

    def execute(timeout):
        h = harnesses.get(key)
        if h is None:
            cs = {"keepalive": 2}
            if case.get("proxy"):
                cs["proxy_protocol"] = True
            if case.get("statsd"):
                cs["statsd_host"] = "127.0.0.1:18125"      # instrumentation on: the Statsd logger sits in the access-log path
            h = harnesses[key] = e2.Harness(case["kind"], cs)
        app = App(streaming=bool(case.get("streaming_app")))
        out = h.connection(stream, app, mode=mode, partial_read=case.get("partial_read", 0), timeout=timeout, peer=peer)
        papp = App()
        probe = h.connection(CANON, papp, timeout=timeout, peer=peer)
        v = judge(case, out, app, probe)
        if out["hung"] or probe["hung"]:
            # a loop that is still running owns harness state: start the next case from a fresh worker object
            harnesses.pop(key).close()
        return v, out, probe

    if case.get("streaming_app"):
        run.count("streaming_application_cases")
    v, out, probe = execute(3.0)
    if v and (out["hung"] or probe["hung"]):
        # "still running at the watchdog" is a wall-clock reading (3 s): on a machine that is very busy a loop that is merely
        # slow looks the same.  The input is deterministic - believe it only if it happens again on a fresh worker object
        # with five times the time
        run.count("watchdog_cases_run_again")
        v, out, probe = execute(15.0)
        if not v:
            run.count("watchdog_cases_clean_with_more_time")
    # reach
    allowed, msgs = allowed_calls(stream, case.get("proxy", False))
    if msgs and msgs[-1].status == "reject":
        run.count("ref_rejected_inputs")
    if msgs and msgs[-1].status == "incomplete":
        run.count("truncated_inputs")
    if out["received"][:9] == b"HTTP/1.1 " and b" 4" in out["received"][:13] or b"HTTP/1.1 5" in out["received"][:10]:
        run.count("error_replies_seen")
    if not out["received"] and mode in ("halfclose", "hold"):
        run.count("silent_closes_seen")
    run.count("mode/" + mode)
    run.count("peer/" + str(case.get("peer", "tcp")))
    if case.get("statsd"):
        run.count("statsd_configured_cases")
    run.count("liveness_probes")
    return v, out


def tls_shard(sh):
    """A TLS listener (the repository's example certificate), with the handshake done lazily or at accept time
    (do_handshake_on_connect): peers that speak clear text to it, that leave or reset before or during the handshake, that send
    half a ClientHello, and hostile HTTP inside a proper TLS session.  The same worker processes must go on serving."""
    import os
    import socket
    import ssl
    import struct
    import time
    from vlib import e4_live as e4
    run = Run(PROP, sh.get("tier", "quick"), sh["seed"], "fault_enumeration", RULE)
    wc = sh["class"]
    rng = rng_for(sh["seed"], "c05-tls", wc, sh["on_connect"])
    crt, key = os.path.join(common.REPO, "examples", "server.crt"), os.path.join(common.REPO, "examples", "server.key")
    if not (os.path.exists(crt) and os.path.exists(key)):
        run.inconclusive_because("example certificate not found in the tree")
        return run
    settings = {"keepalive": 2, "graceful_timeout": 2, "timeout": 30, "certfile": crt, "keyfile": key,
                "do_handshake_on_connect": bool(sh["on_connect"])}
    if wc == "gthread":
        settings["threads"] = 2
    srv = e4.Server("c05t", worker_class=wc, workers=2, settings=settings)
    ctx = ssl.create_default_context()
    ctx.check_hostname = False
    ctx.verify_mode = ssl.CERT_NONE

    def probe():
        try:
            c = ctx.wrap_socket(socket.create_connection(srv.addr, 5))
            c.settimeout(8)
            c.sendall(b"GET /pid HTTP/1.1\r\nHost: p\r\nConnection: close\r\n\r\n")
            buf = b""
            while True:
                d = c.recv(65536)
                if not d:
                    break
                buf += d
            c.close()
            return buf.startswith(b"HTTP/1.1 200") and buf.endswith(b"|END"), buf[:80]
        except (OSError, ssl.SSLError) as e:
            return False, repr(e)

    hello = None
    try:
        srv.start()
        w0 = srv.wait_workers(2, 25)
        ok = False
        t0 = time.monotonic()
        while w0 and time.monotonic() - t0 < 8 and not ok:
            ok, _ = probe()
        if not w0 or not ok:
            run.inconclusive_because("live TLS server (%s) did not come up: %s" % (wc, srv.stderr()[-200:]))
            return run
        # a real ClientHello to cut into pieces: record what our own TLS stack sends first
        inc, outg = ssl.MemoryBIO(), ssl.MemoryBIO()
        o = ctx.wrap_bio(inc, outg, server_hostname="h")
        try:
            o.do_handshake()
        except ssl.SSLWantReadError:
            pass
        hello = outg.read()
        kinds = ["clear-text", "clear-text-rst", "connect-close", "connect-rst", "hello-cut", "hello-cut-rst", "garbage", "tls-inner-hostile",
                 "hello-then-close", "served-then-lingers"]

        def tcp_closed(t, wait):
            """Has the server's FIN (or a reset) arrived on the TCP connection under this TLS socket?"""
            end = time.monotonic() + wait
            while True:
                raw = socket.socket(fileno=os.dup(t.fileno()))
                try:
                    raw.settimeout(max(0.05, end - time.monotonic()))
                    d = raw.recv(1, socket.MSG_PEEK)
                except socket.timeout:
                    return False
                except OSError:
                    return True
                finally:
                    raw.close()
                if d == b"":
                    return True
                try:                # TLS records not consumed yet (alerts, tickets): let the TLS layer take them
                    t.settimeout(1)
                    t.recv(65536)
                except (OSError, ssl.SSLError):
                    pass
                if time.monotonic() > end:
                    return False

        def lingerers():
            """Clients that were served their last response (Connection: close) and then just keep their socket: the server is
            the side that closes, whatever the peer does afterwards - and it goes on serving the others meanwhile."""
            held = []
            for _ in range(5):
                try:
                    t = ctx.wrap_socket(socket.create_connection(srv.addr, 5))
                    t.settimeout(8)
                    t.sendall(b"GET /pid HTTP/1.1\r\nHost: l\r\nConnection: close\r\n\r\n")
                    buf = b""
                    try:
                        while True:
                            d = t.recv(65536)
                            if not d:
                                break
                            buf += d
                    except (OSError, ssl.SSLError):
                        pass
                    if buf.startswith(b"HTTP/1.1 200") and buf.endswith(b"|END"):
                        held.append(t)
                    else:
                        t.close()
                except (OSError, ssl.SSLError):
                    pass
            ok, what = probe()
            run.count("tls_liveness_probes")
            if held and not ok:
                run.violation("live/server-does-not-serve-next-connection", "%s (TLS, do_handshake_on_connect=%s): %d clients were served a "
                              "'Connection: close' response and keep their sockets open without closing; the next client -> %s" % (
                                  wc, sh["on_connect"], len(held), what), {"tls": wc, "on_connect": sh["on_connect"], "last_kind": "served-then-lingers"})
            elif held:
                # the probe was served after them: the server has long finished those responses
                run.count("tls_served_then_lingering_clients", len(held))
                still = [t for t in held if not tcp_closed(t, 5)]
                if still:
                    run.violation("live/connection-not-closed-after-final-response", "%s (TLS, do_handshake_on_connect=%s): %d of %d connections "
                                  "whose last response (Connection: close) was delivered in full are still open at TCP level after a later "
                                  "client was served - the server waits for the peer to close first" % (wc, sh["on_connect"], len(still), len(held)),
                                  {"tls": wc, "on_connect": sh["on_connect"], "last_kind": "served-then-lingers"})
            for t in held:
                try:
                    t.close()
                except (OSError, ssl.SSLError):
                    pass

        for k in range(sh["n"]):
            if run.enough(3):
                break
            kind = kinds[k % len(kinds)]
            try:
                if kind == "served-then-lingers":
                    lingerers()
                    run.case(("tls", wc, sh["on_connect"], kind, k))
                    run.count("tls_inputs")
                    run.count("tls_kind/" + kind)
                    continue
                c = socket.create_connection(srv.addr, 5)
                rst = kind.endswith("-rst")
                if kind.startswith("clear-text"):
                    c.sendall(rng.choice(BASE_REQUESTS))
                elif kind.startswith("hello-cut"):
                    c.sendall(hello[:rng.randint(1, len(hello) - 1)])
                elif kind == "hello-then-close":
                    c.sendall(hello)
                elif kind == "garbage":
                    c.sendall(bytes(rng.randrange(256) for _ in range(rng.randint(1, 600))))
                elif kind == "tls-inner-hostile":
                    t = ctx.wrap_socket(c)
                    t.settimeout(6)
                    t.sendall(gen.gen_stream(rng, hostile=0.9, sentinel=False)[:4000])
                    try:
                        t.shutdown(socket.SHUT_WR)
                    except (OSError, ssl.SSLError):
                        pass
                    try:
                        while t.recv(65536):
                            pass
                    except (OSError, ssl.SSLError):
                        pass
                    c = t
                if rst:
                    c.setsockopt(socket.SOL_SOCKET, socket.SO_LINGER, struct.pack("ii", 1, 0))
                elif kind in ("clear-text", "garbage") and rng.random() < 0.5:
                    c.settimeout(3)
                    try:
                        c.recv(65536)
                    except OSError:
                        pass
                c.close()
            except (OSError, ssl.SSLError):
                pass
            run.case(("tls", wc, sh["on_connect"], kind, k))
            run.count("tls_inputs")
            run.count("tls_kind/" + kind)
            if k % 9 == 8 or k == sh["n"] - 1:
                time.sleep(0.3)
                ok, what = probe()
                run.count("tls_liveness_probes")
                ws = srv.worker_pids()
                if not ok:
                    run.violation("live/server-does-not-serve-next-connection", "%s (TLS, do_handshake_on_connect=%s): probe after %s -> %s" % (
                        wc, sh["on_connect"], kind, what), {"tls": wc, "on_connect": sh["on_connect"], "last_kind": kind})
                if set(ws) != set(w0):
                    run.violation("live/worker-died-on-hostile-input", "%s (TLS, do_handshake_on_connect=%s): worker pids changed from %s to %s "
                                  "within the last 9 connections (kinds %s): %s" % (
                                      wc, sh["on_connect"], w0, ws, kinds, [ln for ln in srv.error_log().splitlines() if "rror" in ln][-2:]),
                                  {"tls": wc, "on_connect": sh["on_connect"], "last_kind": kind})
                    w0 = ws
    finally:
        srv.cleanup()
    return run


def live_shard(sh):
    # A sample of the same inputs against a real server of one worker class over TCP, including connections the client resets
    # (SO_LINGER 0): no request may reach the application that the strict reading rejects, and the same worker processes must
    # go on serving - a worker that dies and is replaced shows up as a new pid.
    import socket
    import struct
    import time
    from vlib import e4_live as e4
    run = Run(PROP, sh.get("tier", "quick"), sh["seed"], "fault_enumeration", RULE)
    wc = sh["class"]
    rng = rng_for(sh["seed"], "c05-live", wc)
    app_source = e4.APP_SOURCE.replace('    if kind == "pid":', '    if kind != "pid":\n        _phase("appcall " + environ.get("RAW_URI", "?"))\n    if kind == "pid":', 1)
    settings = {"keepalive": 2, "graceful_timeout": 2, "timeout": 30}
    if wc == "gthread":
        settings["threads"] = 2
    srv = e4.Server("c05", worker_class=wc, workers=2, settings=settings, app_source=app_source)
    try:
        srv.start()
        w0 = srv.wait_workers(2, 25)
        if not w0 or not srv.wait_listening(5):
            run.inconclusive_because("live server (%s) did not boot" % wc)
            return run
        # keep-alive histories: one complete request is served, then the client sends part of another request (or nothing)
        # and goes quiet past the keep-alive time.  The unfinished request was never accepted: the application must have
        # been called exactly once, and after the first response the client may see nothing or one 4xx/5xx reply.
        import threading
        holds = []

        def ka_hold(k, prefix, body):
            rec = {"k": k, "prefix": prefix, "first": None, "after": b"", "closed": False, "err": None}
            holds.append(rec)
            try:
                c = e4.connect(srv.addr, 5)
            except OSError as e:
                rec["err"] = repr(e)
                return
            try:
                uri = "/kahold/%d" % k
                if body:
                    raw = ("POST %s HTTP/1.1\r\nHost: h\r\nContent-Length: %d\r\n\r\n" % (uri, len(body))).encode() + body
                else:
                    raw = ("GET %s HTTP/1.1\r\nHost: h\r\n\r\n" % uri).encode()
                r1 = e4.request(srv.addr, raw=raw, sock=c, close=False, timeout=8)
                rec["first"] = r1["outcome"]
                if r1["outcome"] != "ok":
                    return
                if prefix:
                    c.sendall(prefix)
                c.settimeout(0.5)
                t0 = time.monotonic()
                while time.monotonic() - t0 < settings["keepalive"] * 2 + 1.5:
                    try:
                        d = c.recv(65536)
                    except socket.timeout:
                        continue
                    except OSError:
                        rec["closed"] = True
                        break
                    if not d:
                        rec["closed"] = True
                        break
                    rec["after"] += d
            except OSError as e:
                rec["err"] = repr(e)
            finally:
                c.close()

        nxt = b"POST /kahold-next HTTP/1.1\r\nHost: h\r\nContent-Length: 5\r\nX-Long: " + b"v" * 40 + b"\r\n\r\n"
        hold_threads = []
        for k in range(4 if sh.get("tier") == "quick" else 16):
            cut = rng.choice([0, 3, rng.randint(1, len(nxt) - 1), len(nxt) - 2, nxt.index(b"X-Long") + 9])   # always inside the head
            t = threading.Thread(target=ka_hold, args=(k, nxt[:cut], rng.choice([b"", b"payload"])), daemon=True)
            t.start()
            hold_threads.append(t)
        fx = [d for _, d in gen.fixture_streams(common.REPO) if len(d) < 2000]
        stuck = []
        for k in range(sh["n"]):
            if run.enough(3) or len(stuck) >= 3:
                break
            r = rng.random()
            if r < 0.4:
                base = rng.choice(BASE_REQUESTS)
                stream = base[:rng.randint(0, len(base))]
            elif r < 0.8:
                stream = gen.gen_stream(rng, hostile=0.9, sentinel=False)
            else:
                stream = gen.mutate(rng, rng.choice(fx), 2)
            # make application calls recognisable: targets of the generated requests are not /pid
            mode = rng.choice(["halfclose", "rst", "rst-early", "close"])
            try:
                s = e4.connect(srv.addr, 5)
                if mode == "rst-early":
                    s.sendall(stream[:max(1, len(stream) // 2)])
                else:
                    s.sendall(stream)
                if mode == "halfclose":
                    s.shutdown(socket.SHUT_WR)
                    s.settimeout(6)
                    try:
                        while s.recv(65536):
                            pass
                    except socket.timeout:
                        # the client has sent everything it will ever send and said so; 6 s later the server has neither
                        # finished a reply nor closed
                        stuck.append((stream, mode))
                    except OSError:
                        pass
                elif mode.startswith("rst"):
                    s.setsockopt(socket.SOL_SOCKET, socket.SO_LINGER, struct.pack("ii", 1, 0))
                s.close()
            except OSError:
                pass
            run.case((common.sha12(stream), mode, "live-" + wc), nontrivial=len(stream) > 0)
            run.count("live_inputs")
            run.count("live_mode/" + mode)
            if k % 10 == 9 or k == sh["n"] - 1:
                pr = e4.request(srv.addr, "/pid", timeout=8)
                run.count("live_liveness_probes")
                ws = srv.worker_pids()
                if pr["outcome"] != "ok":
                    run.violation("live/server-does-not-serve-next-connection", "%s: probe after hostile inputs -> %s" % (wc, pr["outcome"]),
                                  {"live": wc, "last_input": stream.hex(), "mode": mode})
                if set(ws) != set(w0):
                    run.violation("live/worker-died-on-hostile-input", "%s: worker pids changed from %s to %s within the last 10 inputs "
                                  "(last: %s, %s)" % (wc, w0, ws, hexs(stream[:120]), mode), {"live": wc, "last_input": stream.hex(), "mode": mode})
                    w0 = ws
        if len(stuck) >= 2:
            run.violation("live/connection-neither-answered-nor-closed", "%s: %d connections on which the client had sent its last byte and "
                          "half-closed were still open and silent 6 s later (first input: %s)" % (wc, len(stuck), hexs(stuck[0][0][:120])),
                          {"live": wc, "last_input": stuck[0][0].hex(), "mode": stuck[0][1]})
        elif stuck:
            run.count("live_slow_connections")
        # application calls: every target the application saw must belong to a request the strict reading does not reject
        seen = [m.split(" ", 1)[1] for _, _, m in srv.phases() if m.startswith("appcall ")]
        run.count("live_app_calls", len(seen))
        for t in hold_threads:
            t.join(20)
        for rec in holds:
            if rec["first"] != "ok":
                continue
            calls = seen.count("/kahold/%d" % rec["k"])
            run.count("live_keepalive_hold_histories")
            run.case(("live-kahold", wc, len(rec["prefix"])))
            wit = {"live": wc, "kahold": {"prefix": rec["prefix"].hex(), "after": rec["after"][:300].hex()}}
            if calls != 1 or "/kahold-next" in seen:
                run.violation("live/application-called-for-unfinished-request", "%s: one complete request, then %d bytes of another "
                              "and silence: the application was called %d times for the first request%s" % (
                                  wc, len(rec["prefix"]), calls, " and once for the unfinished one" if "/kahold-next" in seen else ""), wit)
            if rec["after"]:
                st = e4.status_of(rec["after"])
                if not (st and 400 <= st < 600 and rec["after"].count(b"HTTP/1.") == 1):
                    run.violation("live/reply-to-unfinished-request", "%s: after the first response and %d bytes of an unfinished "
                                  "request the client received %r" % (wc, len(rec["prefix"]), rec["after"][:120]), wit)
    finally:
        srv.cleanup()
    return run


KAEXP_ACTIONS = {
    "garbage": b"\x00\xffnot http at all\r\n\r\n",
    "bad-version": b"GET /kaexp-late HTTP/9.9\r\nHost: h\r\n\r\n",
    "valid": b"GET /kaexp-late HTTP/1.1\r\nHost: h\r\n\r\n",
    "half": b"GET /kaexp-late HTTP/1.1\r\nHo",
    "fin": None,
    "rst": None,
}


def kaexp_round(e4, srv, KA, plan):
    """plan = [(start delay, offset, action)]: each entry is one client that is served a request, idles, and `KA + offset` seconds after
    its response sends the action's bytes (or leaves); returns one record per client."""
    import socket
    import struct
    import threading
    import time
    recs = []

    def client(i, delay, off, action):
        rec = {"i": i, "off": off, "action": action, "first": None, "sent_at": None, "after": b"", "closed": False, "err": None}
        recs.append(rec)
        time.sleep(delay)
        try:
            c = e4.connect(srv.addr, 5)
        except OSError as e:
            rec["err"] = repr(e)
            return
        try:
            r1 = e4.request(srv.addr, raw=("GET /kaexp/%d HTTP/1.1\r\nHost: h\r\n\r\n" % i).encode(), sock=c, close=False, timeout=8)
            t_resp = time.monotonic()
            rec["first"] = r1["outcome"]
            if r1["outcome"] != "ok" or b"connection: close" in r1["data"].lower():
                rec["first"] = "not-kept-alive" if r1["outcome"] == "ok" else r1["outcome"]
                return
            while True:
                left = t_resp + KA + off - time.monotonic()
                if left <= 0:
                    break
                time.sleep(min(left, 0.2))
            rec["sent_at"] = round(time.monotonic() - t_resp, 3)       # measured, not planned
            data = KAEXP_ACTIONS[action]
            if data is not None:
                c.sendall(data)
            elif action == "fin":
                c.shutdown(socket.SHUT_WR)
            else:
                if isinstance(srv.addr, tuple):
                    c.setsockopt(socket.SOL_SOCKET, socket.SO_LINGER, struct.pack("ii", 1, 0))
                return
            c.settimeout(0.5)
            t0 = time.monotonic()
            while time.monotonic() - t0 < 8:
                try:
                    d = c.recv(65536)
                except socket.timeout:
                    if action == "half" and time.monotonic() - t0 > KA + 2.5:
                        break           # an unfinished request may be waited for (its handler thread owns the connection now)
                    continue
                except OSError:
                    rec["closed"] = True
                    break
                if not d:
                    rec["closed"] = True
                    break
                rec["after"] += d
        except OSError as e:
            rec["err"] = repr(e)
        finally:
            c.close()

    ths = [threading.Thread(target=client, args=(i,) + tuple(p), daemon=True) for i, p in enumerate(plan)]
    for t in ths:
        t.start()
    for t in ths:
        t.join(40)
    return recs


def kaexp_shard(sh):
    """Events on an idle keep-alive connection around the moment its keep-alive time runs out (live, otherwise quiet server): several clients, staggered, are served one request each and then send garbage, a malformed or a valid or half a request,
    or leave (FIN / RST) at keepalive + {-0.1 .. +1.0} s after their response - before the expiry, after it but before the worker's
    loop has looked at the connection again, or after the worker closed it.  Judged: whatever the connection's fate, the same worker
    process answers the next connection, nothing in the error log says the worker failed, and the only thing a client may receive
    after garbage is one 4xx/5xx reply."""
    import time
    from vlib import e4_live as e4
    run = Run(PROP, sh.get("tier", "quick"), sh["seed"], "fault_enumeration", RULE)
    wc = sh["class"]
    KA = 1
    settings = {"keepalive": KA, "graceful_timeout": 2, "timeout": 30}
    if wc == "gthread":
        settings["threads"] = 2
    plans = sh.get("plans")
    if plans is None:
        rng = rng_for(sh["seed"], "c05-kaexp", wc)
        offs = [round(-0.1 + 0.05 * j, 2) for j in range(23)]           # -0.10 .. +1.00
        plans = []
        for r in range(sh.get("rounds", 2)):
            rng.shuffle(offs)
            stagger = rng.choice([0.13, 0.17, 0.23])
            acts = sorted(KAEXP_ACTIONS)
            plans.append([(round(i * stagger, 2), off, acts[(i + r + sh["seed"]) % len(acts)]) for i, off in enumerate(offs[:12])])
            offs = offs[12:] + offs[:12]
    established = False
    for attempt in range(3):
        # four workers, each with its own loop: the clients spread over them, so that fewer of them wake the same loop (whatever
        # wakes a loop lets it reap every connection that has expired by then - only the first event after an expiry meets the window)
        srv = e4.Server("c05k", worker_class=wc, workers=4, settings=settings)
        try:
            srv.start()
            w0 = srv.wait_workers(4, 25)
            if not w0 or not srv.wait_listening(5):
                continue
            time.sleep(0.3)
            hits = 0
            witnessed = False
            for idx, plan in enumerate(list(plans) + list(plans[:1])):
                if witnessed or (idx >= len(plans) and hits):
                    break           # (one extra round only when no event has hit the window so far)
                recs = kaexp_round(e4, srv, KA, plan)
                served = [r for r in recs if r["first"] == "ok" and r["sent_at"] is not None]
                run.count("live_kaexp_rounds")
                run.count("live_kaexp_events_sent", len(served))
                for r in served:
                    run.count("live_kaexp_action/" + r["action"])
                    run.case(("live-kaexp", wc, r["action"], r["off"]))
                    if r["sent_at"] > KA and r["after"][:9] == b"HTTP/1.1 ":
                        # answered although the keep-alive time was over: the event reached the worker before it reaped the connection
                        hits += 1
                        run.count("live_kaexp_answered_after_keepalive_time")
                    elif r["sent_at"] > KA:
                        run.count("live_kaexp_closed_after_keepalive_time")
                    else:
                        run.count("live_kaexp_before_keepalive_time")
                wit = {"kaexp": wc, "plans": [plan]}
                pr = e4.request(srv.addr, "/pid", timeout=10)
                ws = srv.worker_pids()
                log = srv.error_log()
                crashed = [ln for ln in log.splitlines() if "Exception in worker process" in ln or "exited with code" in ln]
                what = ", ".join("%s at +%.2f s" % (r["action"], r["sent_at"]) for r in served)
                if crashed or set(ws) != set(w0):
                    tb = [ln.strip() for ln in log.splitlines() if "Error" in ln and "[ERROR]" not in ln][-2:]
                    run.violation("live/worker-died-on-event-at-keepalive-expiry", "%s, keepalive %d s: clients were served and then, counted "
                                  "from their response, did: %s.  Worker pids before %s, after %s; error log: %s %s" % (
                                      wc, KA, what, w0, ws, crashed[:2], tb), wit)
                    witnessed = True
                elif pr["outcome"] != "ok":
                    run.violation("live/server-does-not-serve-next-connection", "%s, keepalive %d s: after clients did (%s) the next "
                                  "connection -> %s" % (wc, KA, what, pr["outcome"]), wit)
                    witnessed = True
                else:
                    run.count("live_kaexp_liveness_probes")
                for r in served:
                    if r["action"] in ("garbage", "bad-version") and r["after"]:
                        st = e4.status_of(r["after"])
                        if not (st and 400 <= st < 600 and r["after"].count(b"HTTP/1.") == 1):
                            run.violation("live/reply-to-garbage-on-idle-keepalive-connection", "%s: %s sent %.2f s after the response on "
                                          "a keep-alive connection (keepalive %d s): the client received %r" % (
                                              wc, r["action"], r["sent_at"], KA, r["after"][:120]), wit)
                        elif b"connection: close" not in r["after"].lower():
                            run.violation("live/error-reply-without-connection-close", "%s: %s sent %.2f s after the response on a keep-alive "
                                          "connection: %r" % (wc, r["action"], r["sent_at"], r["after"][:160]), wit)
            if witnessed or hits:
                established = True
                break
        finally:
            srv.cleanup()
    if not established:
        run.inconclusive_because("keep-alive expiry sweep (%s): in three attempts no late event was answered after the keep-alive time, "
                                 "the window between expiry and reaping was never hit (or the server did not boot)" % wc)
    return run


def shard(sh):
    if sh.get("kind") == "tls":
        return tls_shard(sh)
    if sh.get("kind") == "kaexp":
        return kaexp_shard(sh)
    if sh.get("kind") == "live":
        return live_shard(sh)
    from vlib import e2_worker as e2
    run = Run(PROP, sh.get("tier", "quick"), sh["seed"], "fault_enumeration", RULE)
    rng = rng_for(sh["seed"], "c05", sh["kind"], sh["sub"])
    hs = {}
    fd0 = None
    n = 0
    try:
        hangs = [0]
        hs0 = [0]

        def one(case):
            nonlocal n, fd0
            n += 1
            run.case((common.sha12(case["stream"]), case["mode"], case["kind"]), nontrivial=len(case["stream"]) > 0)
            # "no input can wedge a worker": a case that keeps the process computing (CPU time, not wall clock) ends the shard
            common.cpu_guard(case)
            v, out = run_case(run, e2, hs, case)
            if out["hung"]:
                hangs[0] += 1
            for mech, summary in v:
                run.violation(mech, summary + " | loop=%s mode=%s input=%s" % (
                    case["kind"], case["mode"], hexs(bytes.fromhex(case["stream"])[:200])), case)
            if n == 100:
                fd0 = e2.nfds()
                hs0[0] = len(hs)
            if n % 50 == 0 and fd0 is not None and n > 100:
                run.count("fd_checks")
                # every worker object the harness creates later (another worker kind / configuration) owns a few descriptors
                # of its own: heartbeat file, poller, statsd socket
                allowance = 6 + 4 * max(0, len(hs) - hs0[0])
                if e2.nfds() > fd0 + allowance:
                    run.violation("descriptor-leak", "open descriptors grew from %d to %d (%d worker objects then, %d now)" % (
                        fd0, e2.nfds(), hs0[0], len(hs)), {"note": "aggregate", "shard": sh})
                    fd0 = e2.nfds()
                    hs0[0] = len(hs)
            return v

        if sh["kind"] == "prefix":
            reqs = BASE_REQUESTS + [d for _, d in gen.fixture_streams(common.REPO) if "valid/" in _ and len(d) < 700][:32]
            allreq = [(r, False) for r in reqs] + [(r, True) for r in PROXY_REQUESTS]
            for base, proxy in allreq[sh["sub"]::sh["of"]]:
                for cutp in range(0, len(base) + 1):
                    if run.enough() or hangs[0] >= 4:
                        break
                    pre = base[:cutp]
                    for kind in e2.KINDS:
                        modes = ["halfclose"]
                        if cutp % 3 == sh["seed"] % 3:
                            modes.append("close")
                        if cutp % 5 == sh["seed"] % 5:
                            modes.append("close_pending")
                        for mode in modes:
                            one({"stream": pre.hex(), "mode": mode, "kind": kind, "proxy": proxy, "partial_read": 7,
                                 "peer": ["tcp", "unix", "tcp", "tcp6"][(cutp + len(base)) % 4]})
            run.sample({"class": "prefix enumeration", "requests": len(allreq[sh["sub"]::sh["of"]]),
                        "example": hexs((allreq[sh["sub"]][0] if sh["sub"] < len(allreq) else b"")[:120])}, cap=1)
            run.extra_cov["prefix_enumeration_complete"] = True
        elif sh["kind"] == "hostile":
            for k in range(sh["n"]):
                if run.enough() or hangs[0] >= 4:
                    break
                s = gen.gen_stream(rng, hostile=rng.choice([0.5, 0.9]), sentinel=rng.random() < 0.5)
                msgs = ref_http.walk(s, "drop")
                complete_reject = bool(msgs) and msgs[-1].status == "reject"
                mode = rng.choice(["halfclose", "halfclose", "close", "close_pending"] + (["hold"] * 3 if complete_reject else []))
                if mode == "hold" and rng.random() < 0.12:
                    mode = "trickle"
                if mode in ("hold", "trickle"):
                    # only when the rejected message's head is complete on the wire: the server needs nothing more
                    m = msgs[-1]
                    if s.find(b"\r\n\r\n", m.start) < 0 or m.body_started:
                        # (a defect the strict reading finds inside the body may sit where gunicorn reads more leniently and
                        # simply waits for the rest - what is accepted is C01's subject, here the client must not wait)
                        mode = "halfclose"
                kind = rng.choice(e2.KINDS)
                if mode in ("hold", "trickle") and kind == "gthread" and len(msgs) > 1:
                    # the threaded worker leaves an already-buffered pipelined request unprocessed until new bytes
                    # arrive or the keep-alive timer fires (2 s): nothing wrong for C05, just slow - half-close instead
                    mode = "halfclose"
                case = {"stream": s.hex(), "mode": mode, "kind": kind, "partial_read": rng.choice([1, 20, 500]),
                        "peer": rng.choice(["tcp", "tcp", "unix", "unixb", "tcp6"]), "statsd": rng.random() < 0.25,
                        # PROXY protocol switched on, the (allowed) peer just does not send the optional line
                        "proxy": rng.random() < 0.2, "streaming_app": rng.random() < 0.3}
                if case["proxy"]:
                    run.count("proxy_protocol_on_without_proxy_line")
                one(case)
                if k < 1:
                    run.sample({"class": "hostile grammar", "input": hexs(s[:300]), "mode": mode})
        else:
            fx = [d for _, d in gen.fixture_streams(common.REPO)]
            for k in range(sh["n"]):
                if run.enough() or hangs[0] >= 4:
                    break
                r = rng.random()
                if r < 0.3:
                    s = bytes(rng.randrange(256) for _ in range(rng.choice([1, 5, 50, 300, 3000])))
                elif r < 0.45:
                    s = rng.choice([b"\x00" * 100, b"\r\n" * 50, b"GET " + b"/" * 70000 + b" HTTP/1.1\r\n\r\n",
                                    b"GET / HTTP/1.1\r\n" + b"X: " + b"a" * 70000 + b"\r\n\r\n",
                                    "GET /é中 HTTP/1.1\r\n\r\n".encode("utf-8"), b"\x16\x03\x01\x02\x00\x01\x00\x01\xfc\x03\x03",
                                    b"GET / HTTP/1.1\r\n" + b"".join(b"H%d: v\r\n" % i for i in range(200)) + b"\r\n"])
                else:
                    s = gen.mutate(rng, rng.choice(fx), rng.randint(1, 4))
                case = {"stream": s.hex(), "mode": rng.choice(["halfclose", "halfclose", "close", "close_pending"]),
                        "kind": rng.choice(e2.KINDS), "partial_read": rng.choice([1, 20, 500]),
                        "peer": rng.choice(["tcp", "tcp", "unix", "unixb", "tcp6"])}
                one(case)
                if k < 1:
                    run.sample({"class": "random/mutated", "input": hexs(s[:200]), "mode": case["mode"]})
    finally:
        for h in hs.values():
            h.close()
    return run


def main(tier, seed):
    run = Run(PROP, tier, seed, "fault_enumeration", RULE)
    run.require("ref_rejected_inputs", "truncated_inputs", "error_replies_seen", "silent_closes_seen", "mode/halfclose",
                "mode/hold", "mode/trickle", "mode/close", "mode/close_pending", "liveness_probes", "fd_checks", "peer/unix", "peer/tcp", "peer/tcp6", "statsd_configured_cases", "proxy_protocol_on_without_proxy_line", "streaming_application_cases")
    q = tier == "quick"
    shards = [{"kind": "prefix", "sub": i, "of": 22, "seed": seed, "tier": tier} for i in range(22)]
    shards += [{"kind": "hostile", "n": 1200 if q else 20000, "sub": i, "seed": seed, "tier": tier} for i in range(12 if q else 32)]
    shards += [{"kind": "random", "n": 800 if q else 15000, "sub": i, "seed": seed, "tier": tier} for i in range(10 if q else 32)]
    shards += [{"kind": "live", "class": c, "n": 150 if q else 1500, "seed": seed, "tier": tier}
               for c in ("sync", "gthread", "gevent", "eventlet")]
    # events on idle keep-alive connections around the expiry of the keep-alive time (threaded worker: its loop reaps them)
    # (first in the list: it mostly sleeps, and so overlaps with everything else)
    shards = [{"kind": "kaexp", "class": c, "rounds": 2 if q else 6, "seed": seed, "tier": tier} for c in ["gthread"]] + shards
    run.require("live_kaexp_events_sent", "live_kaexp_answered_after_keepalive_time", "live_kaexp_liveness_probes")
    tls_classes = ["sync", "gthread", "gevent", "eventlet"]
    for i, c in enumerate(tls_classes if not q else ["sync", tls_classes[1 + seed % 3]]):
        for oc in (True, False):
            shards.append({"kind": "tls", "class": c, "on_connect": oc, "n": 45 if q else 360, "seed": seed, "tier": tier})
    run.require("live_inputs", "live_liveness_probes", "live_mode/rst", "live_keepalive_hold_histories", "tls_inputs", "tls_liveness_probes",
                "tls_served_then_lingering_clients")
    run.assumptions = [
        "live sub-tier: 150 hostile / truncated / reset (SO_LINGER 0) connections per worker class against real servers over TCP; judged: "
        "the server keeps serving and no worker pid changes",
        "keep-alive expiry sweep (live, gthread, keepalive 1 s, four workers): clients that were served send garbage / a malformed / valid / "
        "half request or leave (FIN, RST) at keepalive + {-0.10 .. +1.00} s after their response; judged: same worker pids afterwards, the "
        "next connection is served, no worker failure in the error log, at most one 4xx/5xx reply with Connection: close after garbage; "
        "'held' needs at least one late event that was answered after the keep-alive time (it met the window before the worker reaped)",
        "a case the 3 s wall-clock watchdog flags is run again on a fresh worker object with 15 s and reported only if it is flagged again",
        "strict reference (vlib/ref_http.py) decides which requests may reach the application; EITHER inputs may go either way",
        "a request with a complete valid head and a broken body has legitimately reached the application; the program reads the whole body first",
        "clients that close without reading cannot observe the reply: only app calls, closure, escape and liveness are judged for them",
        "in-process AF_UNIX socketpair; RST via SO_LINGER on TCP belongs to the live sub-tier",
    ]
    common.run_sharded(run, shards, timeout=1200 if q else 7200)
    return run.finish()


def replay(path):
    from vlib import e2_worker as e2
    with open(path) as f:
        rec = json.load(f)
    if "kaexp" in rec["case"]:
        r = kaexp_shard({"kind": "kaexp", "class": rec["case"]["kaexp"], "plans": rec["case"]["plans"], "seed": 0})
        for mech, s, _ in r.violations:
            print("VIOLATION property=%s replay=%s\n  %s %s" % (PROP, path, mech, s))
        print("reach:", r.reach)
        if not r.violations:
            print("no violation on replay")
        return 1 if r.violations else 0
    run = Run(PROP, "quick", 0, "fault_enumeration", RULE)
    hs = {}
    try:
        v, out = run_case(run, e2, hs, rec["case"])
    finally:
        for h in hs.values():
            h.close()
    print("input:", hexs(bytes.fromhex(rec["case"]["stream"])[:400]))
    print("received:", hexs(out["received"][:400]), {k: out[k] for k in ("eof", "client_err", "handler_exc", "hung", "server_sock_closed")})
    for mech, s in v:
        print("VIOLATION property=%s replay=%s\n  %s %s" % (PROP, path, mech, s))
    if not v:
        print("no violation on replay")
    return 1 if v else 0
