"""Grammar-based generators and mutators for HTTP/1.x request byte streams.
Shared by C01 / C05 / C06 / C07 / C12 / C15.  Pure Python, no gunicorn import.
"""
import glob
import os

CRLF = b"\r\n"

METHODS = [b"GET", b"POST", b"PUT", b"DELETE", b"OPTIONS", b"PATCH", b"HEAD"]
ODD_METHODS = [b"get", b"G", b"GE", b"GET#", b"G@T", b"PROPFIND", b"X" * 21, b"M-SEARCH",
               b"GET\t", b"", b"P\x00ST", b"POST:", b"\xc3\x96PT"]
VERSIONS = [b"HTTP/1.1"] * 12 + [b"HTTP/1.0"] * 3 + [
    b"HTTP/1.2", b"HTTP/2.0", b"HTTP/0.9", b"http/1.1", b"HTTP/1.1 ", b"HTTP/11", b"HTTP/1.",
    b"HTTP/1.10", b"HTTP/ 1.1", b"HTTP/1,1", b"HTTPS/1.1", b"HTTP/1.\xb9"]

WS_JUNK = [b" ", b"\t", b"\x0b", b"\x0c", b"\x00", b"\r", b"\n", b"\x85", b"\xa0", b"\x1c",
           b"\x1f", b"  ", b" \t", b"\x7f", b"\x08"]
NUM_JUNK = [b"+", b"-", b"0x", b"0X", b"_", b"0", b"00", b".0", b"e0", b" 0", b",", b", ",
            b"\xb2", b"\xb9", b"\xbd", b"\xd9\xa1", b"\xef\xbc\x91", b"\"", b"'", b";", b"#"]
TE_VALUES = [b"chunked", b"Chunked", b"CHUNKED", b"chunked ", b" chunked", b"gzip, chunked",
             b"chunked, gzip", b"chunked, chunked", b"chunked,chunked", b"identity, chunked",
             b"chunked, identity", b"identity", b"gzip", b"deflate, chunked", b"compress, gzip, chunked",
             b"xchunked", b"chunkedx", b"x chunked", b"chunked;q=1", b"chunked; x", b"\"chunked\"",
             b"chunk", b"chunke", b", chunked", b"chunked,", b",chunked,", b"chunked ,", b"br, chunked",
             b"x-gzip, chunked", b"\x0bchunked", b"chunked\x0b", b"\x0cchunked", b"chunked\x0c",
             b"\xa0chunked", b"chunked\x85", b"\x1fchunked", b"chun\x00ked", b"chunked\r", b"ch\nunked",
             b"gzip,\tchunked", b"gzip ,chunked", b"zstd", b"", b" ", b"trailers", b"chunked,\x0bgzip"]
# near misses of every registered name: a coding that is not registered is unknown, whatever it resembles (only x-gzip and
# x-compress are aliases, RFC 9112 7.2)
TE_NEAR_MISSES = [pre + name + post
              for name in (b"chunked", b"Chunked", b"identity", b"gzip", b"deflate")
              for pre, post in ((b"x-", b""), (b"X-", b""), (b"x_", b""), (b"", b"-x"), (b"-", b""), (b"", b"2"),
                                (b"gzip, x-", b""), (b"x-", b", chunked"))
              if pre + name + post not in (b"x-gzip", b"X-gzip", b"gzip, x-gzip", b"x-gzip, chunked")]
TE_NAMES = [b"Transfer-Encoding"] * 8 + [b"transfer-encoding", b"TRANSFER-ENCODING", b"Transfer-encoding",
            b"Transfer_Encoding", b"Transfer-Encoding ", b"Transfer-Encoding\t", b" Transfer-Encoding",
            b"Transfer\xadEncoding", b"X-Transfer-Encoding", b"Transfer-Encodin", b"Transfer-Encoding\x00",
            b"\x0bTransfer-Encoding", b"Transfer-Encoding\x0b"]
CL_NAMES = [b"Content-Length"] * 8 + [b"content-length", b"CONTENT-LENGTH", b"Content-length",
            b"Content_Length", b"Content-Length ", b"Content-Length\t", b" Content-Length",
            b"Content-Lengt", b"X-Content-Length", b"Content-Length\x00", b"Content\xadLength",
            b"\x0bContent-Length", b"Content-Length\x0b"]
LINE_ENDS = [CRLF] * 30 + [b"\n", b"\r", b"\r\r\n", b"\n\r", b"\r\n ", b"\r\n\t"]
BENIGN = [b"Host: example.org", b"Accept: */*", b"User-Agent: verif/1", b"X-A: b", b"Cookie: a=b; c=d",
          b"X-Empty:", b"X-Latin: caf\xe9", b"Accept-Encoding: gzip, chunked", b"TE: trailers",
          b"X-Long: " + b"v" * 300, b"Content-Type: text/plain", b"Expect: 100-continu", b"Expect: 100-continue", b"Expect: 100-Continue",
          b"X-Fake-TE: Transfer-Encoding: chunked", b"X-Tab:\tv\t"]
CONN = [b"Connection: keep-alive", b"Connection: close", b"Connection: Keep-Alive", b"Connection: TE",
        b"Connection: close, TE", b"Connection: x"]

SMUGGLED = b"GET /SMUGGLED HTTP/1.1\r\nHost: evil\r\n\r\n"


def marker(i, tag=b"m"):
    return b"GET /%s-%d-k9q HTTP/1.1\r\nHost: marker\r\n\r\n" % (tag, i)


def chunk_encode(rng, body, style=None):
    """Encode body with random (valid unless style asks otherwise) chunk layout."""
    out = []
    style = style or rng.choice(["one", "many", "bytes", "ext", "upper", "zeros"])
    pos = 0
    if body:
        while pos < len(body):
            if style == "one":
                n = len(body) - pos
            elif style == "bytes":
                n = 1
            else:
                n = rng.randint(1, max(1, len(body) - pos))
            piece = body[pos:pos + n]
            pos += n
            if style == "upper":
                size = b"%X" % n
            elif style == "zeros":
                size = b"000%x" % n
            else:
                size = b"%x" % n
            if style == "ext" and rng.random() < 0.7:
                size += rng.choice([b";a=b", b" ;a", b";a=\"q;\r\"", b";", b"\t;x=y", b";x=\ny"])
            out.append(size + CRLF + piece + CRLF)
    return b"".join(out)


def last_chunk(rng, trailers=None):
    z = rng.choice([b"0", b"0", b"0", b"00", b"0000000", b"0;end", b"0 ;x"])
    t = b""
    if trailers is None and rng.random() < 0.2:
        trailers = rng.choice([[b"X-Trailer: v"], [b"X-T1: a", b"X-T2: b"], [b"Content-Length: 7"],
                               [b"Transfer-Encoding: chunked"], [b"X_Under: s"], [b" folded"],
                               [b"Bad Name: v"], [b"X-Nul: a\x00b"]])
    for line in trailers or []:
        t += line + CRLF
    return z + CRLF + t + CRLF


BAD_CHUNK_SIZES = [b"0x5", b"+5", b"-5", b"5 ", b" 5", b"5\t", b"5_0", b"5g", b"g", b"", b"5.0",
                   b"0x", b"\xb5", b"5\x00", b"5\r", b"5\n", b"1e1", b"\xef\xbc\x95",
                   b"5;", b"5 ;", b"5\x0b", b"05", b"5,5", b"FFFFFFFFFFFFFFFFF", b"f" * 40]


def gen_message(rng, i=0, hostile=0.5):
    """One request message. Returns bytes.  `hostile` = probability of applying obfuscation
    operators on the framing syntax."""
    h = rng.random() < hostile
    method = rng.choice(METHODS)
    if h and rng.random() < 0.08:
        method = rng.choice(ODD_METHODS)
    target = rng.choice([b"/", b"/a/b?c=d", b"/r%d" % i, b"*", b"http://h/p?q", b"/x#f", b"//d/e"])
    if h and rng.random() < 0.05:
        target = rng.choice([b"", b"/a b", b"/\t", b"/\x00", b"/\xe9", b"/a\rb", b"/a\nb"])
    version = rng.choice(VERSIONS) if h and rng.random() < 0.25 else b"HTTP/1.1"
    sp1 = b" "
    sp2 = b" "
    if h and rng.random() < 0.04:
        sp1 = rng.choice([b"  ", b"\t", b""])
    if h and rng.random() < 0.04:
        sp2 = rng.choice([b"  ", b"\t", b""])
    lines = [method + sp1 + target + sp2 + version]

    body = rng.choice([b"", b"hello", b"a=1&b=2", b"x" * rng.randint(1, 40), b"0\r\n\r\n",
                       b"line1\nline2\r\n", SMUGGLED, b"5\r\nhello\r\n0\r\n\r\n"])
    plan = rng.choice(["none", "cl", "cl", "chunked", "chunked", "chunked",
                       "cl+te", "te+cl", "dupcl", "dupte", "te-other", "badchunk"] if h
                      else ["none", "cl", "chunked"])
    hdrs = []
    for _ in range(rng.randint(0, 3)):
        hdrs.append(rng.choice(BENIGN))
    if rng.random() < 0.15:
        hdrs.append(rng.choice(CONN))

    def cl_line(n):
        name = rng.choice(CL_NAMES) if h and rng.random() < 0.3 else b"Content-Length"
        val = b"%d" % n
        if h and rng.random() < 0.35:
            op = rng.randint(0, 6)
            j = rng.choice(NUM_JUNK + WS_JUNK)
            if op == 0:
                val = j + val
            elif op == 1:
                val = val + j
            elif op == 2:
                val = val + b", " + val
            elif op == 3:
                val = b"%d" % (n + rng.choice([-1, 1, 10]))
            elif op == 4:
                val = b"0" * rng.randint(1, 3) + val
            elif op == 5:
                val = val[:1] + j + val[1:]
            else:
                val = rng.choice([b"", b" ", b"%x" % (n + 10), b"1" * 30])
        sep = b": "
        if h and rng.random() < 0.1:
            sep = rng.choice([b":", b" : ", b":\t", b"\t:", b": \t ", b":\x0b", b":\xa0"])
        return name + sep + val

    def te_line():
        name = rng.choice(TE_NAMES) if h and rng.random() < 0.3 else b"Transfer-Encoding"
        val = rng.choice(TE_VALUES if rng.random() < 0.8 else TE_NEAR_MISSES) if h and rng.random() < 0.6 else b"chunked"
        if h and rng.random() < 0.15:
            j = rng.choice(WS_JUNK)
            val = rng.choice([j + val, val + j, val.replace(b",", b"," + j, 1)])
        sep = b": "
        if h and rng.random() < 0.1:
            sep = rng.choice([b":", b" : ", b":\t", b"\t:", b":\x0b", b":\xa0"])
        return name + sep + val

    framed_body = b""
    if plan == "cl":
        hdrs.append(cl_line(len(body)))
        framed_body = body
    elif plan == "chunked":
        hdrs.append(te_line())
        framed_body = chunk_encode(rng, body) + last_chunk(rng)
    elif plan in ("cl+te", "te+cl"):
        enc = chunk_encode(rng, body) + last_chunk(rng)
        a, b = cl_line(rng.choice([len(body), len(enc), 0, 4])), te_line()
        hdrs.extend([a, b] if plan == "cl+te" else [b, a])
        framed_body = enc
    elif plan == "dupcl":
        hdrs.append(cl_line(len(body)))
        hdrs.append(cl_line(rng.choice([len(body), 0, len(body) + 3])))
        framed_body = body
    elif plan == "dupte":
        hdrs.append(te_line())
        hdrs.append(te_line())
        framed_body = chunk_encode(rng, body) + last_chunk(rng)
    elif plan == "te-other":
        hdrs.append(b"Transfer-Encoding: " + rng.choice([b"gzip", b"identity", b"deflate", b"compress",
                                                         b"gzip, deflate", b"x-gzip"]))
        if rng.random() < 0.5:
            hdrs.append(cl_line(len(body)))
        framed_body = body
    elif plan == "badchunk":
        hdrs.append(b"Transfer-Encoding: chunked")
        kind = rng.randint(0, 4)
        if kind == 0:
            framed_body = rng.choice(BAD_CHUNK_SIZES) + CRLF + body + CRLF + b"0\r\n\r\n"
        elif kind == 1:      # missing / wrong chunk terminator
            framed_body = b"%x" % len(body or b"z") + CRLF + (body or b"z") + \
                rng.choice([b"", b"\n", b"\r", b"X\r\n", b"\r\r\n", b"\n\r"]) + b"0\r\n\r\n"
        elif kind == 2:      # size larger/smaller than data
            framed_body = b"%x" % (len(body) + rng.choice([-1, 1, 2])) + CRLF + body + CRLF + b"0\r\n\r\n"
        elif kind == 3:      # LF-only line ends
            framed_body = b"%x\n" % len(body or b"z") + (body or b"z") + b"\n0\n\n"
        else:
            framed_body = chunk_encode(rng, body or b"zz") + rng.choice(BAD_CHUNK_SIZES) + CRLF + CRLF
    rng.shuffle(hdrs)
    if h and rng.random() < 0.06:
        # obs-fold / continuation line somewhere
        k = rng.randint(0, len(hdrs))
        hdrs.insert(k, rng.choice([b" folded", b"\tfolded: x", b" Transfer-Encoding: chunked"]))
    if h and rng.random() < 0.05:
        hdrs.insert(rng.randint(0, len(hdrs)),
                    rng.choice([b"NoColon", b": novalue", b"Bad Name: x", b"X-Nul: a\x00b", b"X-Cr: a\rb",
                                b"X-Lf: a\nTransfer-Encoding: chunked", b"X(paren): v", b"\xe9: v"]))
    out = []
    for ln in [lines[0]] + hdrs:
        le = rng.choice(LINE_ENDS) if h and rng.random() < 0.04 else CRLF
        out.append(ln + le)
    out.append(rng.choice(LINE_ENDS) if h and rng.random() < 0.03 else CRLF)
    out.append(framed_body)
    return b"".join(out)


def gen_stream(rng, hostile=0.5, max_msgs=4, sentinel=True):
    n = rng.randint(1, max_msgs)
    parts = []
    for i in range(n):
        if rng.random() < 0.06:
            parts.append(rng.choice([CRLF, CRLF, CRLF + CRLF, b"\n", b"\r", b" " + CRLF]))     # stray empty line before a request
        parts.append(gen_message(rng, i, hostile))
    if rng.random() < 0.04:
        parts.append(rng.choice([CRLF, CRLF + CRLF, b"\r"]))
    s = b"".join(parts)
    if sentinel:
        s += marker(n, b"end")
    return s


def mutate(rng, data, n=None):
    """Byte-level mutation: flip / insert / delete / splice / duplicate a slice."""
    data = bytearray(data)
    for _ in range(n or rng.randint(1, 3)):
        if not data:
            data.extend(b"G")
        op = rng.randint(0, 6)
        p = rng.randrange(len(data))
        if op == 0:
            data[p] = rng.randrange(256)
        elif op == 1:
            data[p:p] = bytes([rng.choice(b"\r\n \t:;,0\x00\x0b") if rng.random() < 0.7 else rng.randrange(256)])
        elif op == 2:
            del data[p]
        elif op == 3:
            q = min(len(data), p + rng.randint(1, 12))
            del data[p:q]
        elif op == 4:
            q = min(len(data), p + rng.randint(1, 20))
            data[p:p] = data[p:q]
        elif op == 5:
            data[p:p] = rng.choice([b"\r\n", b"\r\n\r\n", b"0\r\n\r\n", b"Content-Length: 3\r\n",
                                    b"Transfer-Encoding: chunked\r\n", b" ", b"\n"])
        else:
            data[p] ^= 1 << rng.randrange(8)
    return bytes(data)


def fixture_streams(repo):
    """Raw byte streams of the repository's own valid/invalid request fixtures (treq.py
    conventions: literal \\r\\n etc. are escape sequences in the file)."""
    out = []
    for path in sorted(glob.glob(os.path.join(repo, "tests/requests/*/*.http"))):
        with open(path, "rb") as f:
            data = f.read()
        data = data.replace(b"\n", b"").replace(b"\\r\\n", b"\r\n").replace(b"\\r", b"\r") \
                   .replace(b"\\n", b"\n").replace(b"\\t", b"\t").replace(b"\\0", b"\0")
        out.append((os.path.basename(os.path.dirname(path)) + "/" + os.path.basename(path), data))
    return out


# ---- templates for exhaustive single-byte enumeration --------------------------------------
TEMPLATES = [
    ("cl", b"POST /t1 HTTP/1.1\r\nHost: h\r\nContent-Length: 5\r\n\r\nhello"),
    ("chunked", b"POST /t2 HTTP/1.1\r\nHost: h\r\nTransfer-Encoding: chunked\r\n\r\n5\r\nhello\r\n0\r\n\r\n"),
    ("telist", b"POST /t3 HTTP/1.1\r\nTransfer-Encoding: gzip, chunked\r\n\r\n3\r\nabc\r\n0\r\n\r\n"),
    ("ext-trailer", b"PUT /t4 HTTP/1.1\r\nTransfer-Encoding: chunked\r\n\r\n5;a=b\r\nhello\r\n0\r\nX-T: v\r\n\r\n"),
    ("cl10", b"POST /t5 HTTP/1.0\r\nConnection: keep-alive\r\nContent-Length: 3\r\n\r\nabc"),
    ("nobody", b"GET /t6?x=1 HTTP/1.1\r\nHost: h\r\nX-A: b\r\n\r\n"),
]


def segmentations(rng, n, k_random=8, maxpiece=8192):
    """Cut vectors for a stream of length n (list of sorted cut positions)."""
    out = [[]]
    if n <= 1:
        return out
    out.append(list(range(1, n)))          # byte by byte
    for _ in range(k_random):
        k = rng.randint(1, min(6, n - 1))
        out.append(sorted(rng.sample(range(1, n), k)))
    return out


def cut(stream, cuts, maxpiece=8192):
    pieces = []
    prev = 0
    for c in list(cuts) + [len(stream)]:
        seg = stream[prev:c]
        while len(seg) > maxpiece:
            pieces.append(seg[:maxpiece])
            seg = seg[maxpiece:]
        if seg:
            pieces.append(seg)
        prev = c
    return pieces
