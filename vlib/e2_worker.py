"""Engine E2: real gunicorn worker request loops over a socketpair, in-process.

A worker object is built the way the arbiter builds it (cls(age, ppid, sockets, app, timeout,
cfg, log)) but not forked; worker.wsgi is a scripted application (AppProgram).  Three loops:
  sync    - SyncWorker.accept(listener) -> handle()
  gthread - ThreadWorker.accept() / on_client_socket_readable() / enqueue_req() / handle() /
            finish_request() in a real ThreadPoolExecutor, driven by a minimal poll loop
  async   - AsyncWorker.handle() through a subclass that only supplies timeout_ctx()
The client end is driven by the harness; what it receives is judged elsewhere (ref_resp).
"""
import contextlib
import errno
import io
import logging
import os
import selectors
import socket
import tempfile
import threading
import time
from concurrent import futures

from vlib.common import use_repo

use_repo()
from gunicorn.config import Config                      # noqa: E402
from gunicorn import glogging                           # noqa: E402
from gunicorn.workers.sync import SyncWorker            # noqa: E402
from gunicorn.workers.gthread import ThreadWorker       # noqa: E402
from gunicorn.workers.base_async import AsyncWorker     # noqa: E402

KINDS = ("sync", "gthread", "async")


class _Async(AsyncWorker):
    def timeout_ctx(self):
        return contextlib.nullcontext()


class FakeListener:
    """Stands for the listening socket: hands out prepared (socket, peer) pairs."""

    def __init__(self, name):
        self.name = name
        self.q = []

    def accept(self):
        if not self.q:
            raise BlockingIOError(errno.EAGAIN, "no connection")
        return self.q.pop(0)

    def getsockname(self):
        return self.name

    def fileno(self):
        return -1

    def setblocking(self, v):
        pass

    def close(self):
        pass


class _Capture(logging.Handler):
    def __init__(self):
        super().__init__()
        self.stream = io.StringIO()
        self.nrecords = 0
        self.setFormatter(logging.Formatter("%(message)s"))

    def emit(self, record):
        if record.name != "gunicorn.access":
            return              # (attached to the root logger in the propagation variant: other loggers' records pass by)
        self.nrecords += 1
        self.stream.write(self.format(record) + "\n")

    def take(self):
        v, n = self.stream.getvalue(), self.nrecords
        self.stream = io.StringIO()
        self.nrecords = 0
        return v, n


def nfds():
    return len(os.listdir("/proc/self/fd"))


class Harness:
    def __init__(self, kind, cfgset=None, server_name=("127.0.0.1", 8000), scratch=None, capture_root=False):
        assert kind in KINDS
        self.kind = kind
        cfg = Config()
        base = {"errorlog": "/dev/null", "accesslog": "/dev/null", "loglevel": "critical"}
        if capture_root:
            # access logging configured through a logging dictionary in which 'gunicorn.access' has no handler of its own and
            # propagates to the root logger (where the capture sits)
            base = {"errorlog": "/dev/null", "loglevel": "critical", "logconfig_dict": {
                "version": 1, "disable_existing_loggers": False, "root": {"level": "INFO", "handlers": []},
                "loggers": {"gunicorn.error": {"level": "CRITICAL", "handlers": [], "propagate": False, "qualname": "gunicorn.error"},
                            "gunicorn.access": {"level": "INFO", "handlers": [], "propagate": True, "qualname": "gunicorn.access"}}}}
        base.update(cfgset or {})
        for k, v in base.items():
            cfg.set(k, v)
        self.cfg = cfg
        self.log = cfg.logger_class(cfg)            # the configured logger (statsd_host switches to the Statsd logger)
        self.capture = _Capture()
        self.capture_root = capture_root
        logging.getLogger("" if capture_root else "gunicorn.access").addHandler(self.capture)
        self.server_name = server_name
        self.listener = FakeListener(server_name)
        cls = {"sync": SyncWorker, "gthread": ThreadWorker, "async": _Async}[kind]
        self.worker = cls(1, os.getpid(), [self.listener], None, 30, cfg, self.log)
        self.worker.pid = os.getpid()
        if kind == "gthread":
            w = self.worker
            w.tpool = futures.ThreadPoolExecutor(max_workers=max(1, cfg.threads))
            w.poller = selectors.DefaultSelector()
            w._lock = threading.RLock()
        self.scratch = scratch

    def close(self):
        logging.getLogger("" if self.capture_root else "gunicorn.access").removeHandler(self.capture)
        if self.capture_root:
            logging.getLogger("gunicorn.access").propagate = False
        try:
            self.worker.tmp.close()
        except Exception:
            pass
        if self.kind == "gthread":
            self.worker.tpool.shutdown(wait=False)
            self.worker.poller.close()

    # ---------------------------------------------------------------------------------
    def _serve(self, ssock, peer, box, deadline):
        w = self.worker
        try:
            if self.kind == "sync":
                self.listener.q.append((ssock, peer))
                w.accept(self.listener)
            elif self.kind == "async":
                w.handle(self.listener, ssock, peer)
            else:
                self.listener.q.append((ssock, peer))
                n0 = w.nr_conns
                w.accept(self.server_name, self.listener)
                while w.nr_conns > n0 and time.time() < deadline:
                    events = w.poller.select(0.02)
                    for key, _ in events:
                        key.data(key.fileobj)
                    if w.futures:
                        res = futures.wait(list(w.futures), timeout=0.02,
                                           return_when=futures.FIRST_COMPLETED)
                        for f in res.done:
                            try:
                                w.futures.remove(f)
                            except ValueError:
                                pass
                    w.murder_keepalived()
                if w.nr_conns > n0:
                    box["hung"] = True
        except BaseException as e:          # noqa: BLE001 - an escaping exception is an observation
            box["exc"] = "%s: %s" % (type(e).__name__, e)

    def connection(self, script, app, peer=("127.0.0.1", 50000), mode="halfclose", segments=None,
                   timeout=4.0, partial_read=0, read_delay=0.0, segment_delay=0.0, flood=None):
        """Run one client connection. script: bytes the client sends. Returns dict."""
        lg = logging.getLogger("" if self.capture_root else "gunicorn.access")
        if self.capture not in lg.handlers:
            lg.addHandler(self.capture)         # (another harness's logging set-up in this process may have dropped it)
        if self.capture_root:
            logging.getLogger("gunicorn.access").propagate = True
        self.worker.wsgi = app
        self.worker.alive = True if getattr(self, "_keep_alive_flag", True) else self.worker.alive
        csock, ssock = socket.socketpair()
        box = {"exc": None, "hung": False}
        deadline = time.time() + timeout
        t = threading.Thread(target=self._serve, args=(ssock, peer, box, deadline), daemon=True)
        t.start()
        received = bytearray()
        eof = False
        client_err = None
        try:
            csock.settimeout(timeout)
            pos = 0
            for n in (segments or [len(script)]):
                if n <= 0:
                    continue
                try:
                    csock.sendall(script[pos:pos + n])
                except OSError as e:
                    client_err = "send:" + errno.errorcode.get(e.errno, str(e.errno))
                    break
                pos += n
                if segment_delay and pos < len(script):
                    time.sleep(segment_delay)       # the rest arrives noticeably later
            flood_sent = 0
            if flood:
                # the client never stops: the same unit over and over until the server lets go of the connection (a send fails)
                # or `limit` bytes have been taken
                unit, limit = flood
                block = unit * max(1, 65536 // len(unit))
                csock.settimeout(2.0)
                try:
                    while flood_sent < limit:
                        flood_sent += csock.send(block)
                except socket.timeout:
                    client_err = "flood-stalled"        # nobody reads and nobody closes
                except OSError as e:
                    client_err = "send:" + errno.errorcode.get(e.errno, str(e.errno))
                csock.settimeout(timeout)
            if mode == "halfclose":
                try:
                    csock.shutdown(socket.SHUT_WR)
                except OSError:
                    pass
            if mode == "trickle":
                # stay connected and keep sending a byte now and then: a server that has rejected the request must
                # close the connection all the same
                import select as _select
                saw_eof = False
                closed = False
                t_end = time.time() + 2.6
                while time.time() < t_end:
                    if not saw_eof:
                        r, _w, _x = _select.select([csock], [], [], 0.2)
                        if r:
                            try:
                                d = csock.recv(65536)
                            except OSError as e:
                                closed = True
                                client_err = "recv:" + errno.errorcode.get(e.errno, str(e.errno))
                                break
                            if not d:
                                saw_eof = True      # the server will send no more; has it really let go of the connection?
                            else:
                                received += d
                            continue
                    else:
                        time.sleep(0.2)
                    try:
                        csock.sendall(b"Z")
                    except OSError:
                        closed = True               # EPIPE / ECONNRESET: the server end is gone
                        break
                eof = closed
                if not closed:
                    client_err = "half-closed-but-still-reading" if saw_eof else "still-open-while-client-trickles"
                csock.close()
            elif mode == "close":
                csock.close()
            elif mode == "close_pending":
                # read a little, then close with unread data pending
                try:
                    if partial_read:
                        csock.settimeout(0.004)     # whatever has arrived by now; never wait for the server
                        received += csock.recv(partial_read)
                except OSError:
                    pass
                csock.close()
            else:
                if read_delay:
                    time.sleep(read_delay)      # a slow reader: the server's send buffer fills up first
                while True:
                    try:
                        d = csock.recv(65536)
                    except socket.timeout:
                        client_err = "read-timeout"
                        break
                    except OSError as e:
                        client_err = "recv:" + errno.errorcode.get(e.errno, str(e.errno))
                        eof = True
                        break
                    if not d:
                        eof = True
                        break
                    received += d
        finally:
            try:
                csock.close()
            except OSError:
                pass
        t.join(max(0.1, deadline - time.time()) + 1.0)
        hung = t.is_alive() or box["hung"]
        try:
            closed = ssock.fileno() == -1
        except Exception:
            closed = True
        text, nrec = self.capture.take()
        return {"received": bytes(received), "eof": eof, "client_err": client_err, "flood_sent": flood_sent if flood else None,
                "handler_exc": box["exc"], "hung": hung, "server_sock_closed": closed,
                "access_text": text, "access_records": nrec}


# ---- scripted applications ------------------------------------------------------------------

class AppFailure(Exception):
    pass


def make_failure(kind, where):
    """The exception a scripted application raises at its failure point."""
    msg = "scripted failure %s" % where
    if kind == "oserror":
        return OSError(5, msg)                       # EIO: an OSError that is not a socket condition
    if kind == "filenotfound":
        return FileNotFoundError(2, msg)
    if kind == "permission":
        return PermissionError(13, msg)
    if kind == "timeout":
        return TimeoutError(msg)
    if kind == "valueerror":
        return ValueError(msg)
    return AppFailure(msg)


LATE_BODY = b"late-error-page-21byt"


class _Iter:
    """Iterable with optional close(), lazy start_response, failure points."""

    def __init__(self, prog, start, chunks):
        self.prog = prog
        self.start = start
        self.chunks = list(chunks)
        self.i = 0
        self.started = start is None
        if prog.spec.get("has_close", True):
            self.close = self._close

    def __iter__(self):
        return self

    def __next__(self):
        if not self.started:
            self.started = True
            try:
                self.start()
            except Exception:
                self.prog.rec["failed_at"] = "start_refused"       # the server refused what the application offered: the application fails
                raise
        fail = self.prog.spec.get("fail")
        if getattr(self, "late", None) is not None:
            if self.late:
                c, self.late = self.late[0], self.late[1:]
                return c
            raise StopIteration
        if isinstance(fail, list) and fail[0] == "after_chunk" and self.i == fail[1]:
            if self.prog.spec.get("fail_exc_info"):
                # error-middleware idiom: the failure is caught and an error page offered through start_response(..., exc_info);
                # the server has to refuse (re-raise) once the head of the first response has gone out
                try:
                    raise make_failure(self.prog.spec.get("fail_exc"), "after chunk %d" % self.i)
                except Exception:
                    import sys
                    try:
                        self.prog._sr("500 Late Error", [("Content-Length", str(len(LATE_BODY)))], sys.exc_info())
                    except Exception:
                        self.prog.rec["failed_at"] = "after_chunk_%d" % self.i
                        raise
                self.prog.rec["late_replaced"] = True
                self.late = [LATE_BODY]
                return self.__next__()
            self.prog.rec["failed_at"] = "after_chunk_%d" % self.i
            raise make_failure(self.prog.spec.get("fail_exc"), "after chunk %d" % self.i)
        if self.i >= len(self.chunks):
            raise StopIteration
        c = self.chunks[self.i]
        if self.i >= 1 and self.prog.spec.get("chunk_delay"):
            time.sleep(self.prog.spec["chunk_delay"])      # a slow producer (cooperative under gevent / eventlet)
        self.i += 1
        self.prog.rec["produced"].append(c)
        if self.i == 2 and self.prog.spec.get("read_when") == "after_first_chunk":
            self.prog._read_input()         # the first chunk is on the wire by now: the body is read late
        return c

    def _close(self):
        self.prog.rec["close_calls"] += 1
        cr = self.prog.spec.get("close_raises")
        if cr:
            if isinstance(cr, str):
                raise make_failure(cr, "in the iterable's close()")     # e.g. an OSError kind: a spool file that is already gone
            raise RuntimeError("scripted failure in the iterable's close()")


class AppProgram:
    """WSGI application drawn from a small DSL (see DESIGN.md C02). Records what it was given."""

    def __init__(self, spec, scratch=None):
        self.spec = spec
        self.scratch = scratch
        self.calls = []
        self.rec = None

    def body_chunks(self):
        # a chunk is hex text, or {"rep": [byte, n]} = n times the same byte (keeps a spec small enough for a header)
        return [bytes([c["rep"][0]]) * c["rep"][1] if isinstance(c, dict) else bytes.fromhex(c)
                for c in self.spec.get("chunks", [])]

    def __call__(self, environ, start_response):
        result = self._call(environ, start_response)
        self.rec["returned"] = True         # the application call itself completed (it did not raise)
        return result

    def _call(self, environ, start_response):
        spec = self.spec
        self._sr = start_response
        rec = self.rec = {"environ": {k: v for k, v in environ.items() if isinstance(v, (str, int, bool, tuple))},
                          "input": None, "produced": [], "close_calls": 0, "failed_at": None,
                          "start_calls": 0, "written": []}
        self.calls.append(rec)
        rd = spec.get("read_input", "all")

        def read_input():
            try:
                if rd == "all":
                    rec["input"] = environ["wsgi.input"].read()
                elif isinstance(rd, int):
                    rec["input"] = environ["wsgi.input"].read(rd)
            except Exception as e:              # noqa: BLE001
                rec["input_error"] = type(e).__name__
                raise
        self._read_input = read_input
        when = spec.get("read_when", "first")
        if when == "first":
            read_input()
        if spec.get("fail") == "before_start":
            rec["failed_at"] = "before_start"
            raise make_failure(spec.get("fail_exc"), "before start_response")
        chunks = self.body_chunks()
        headers = [(a, b) for a, b in spec.get("headers", [])]
        total = sum(len(c) for c in chunks)
        if spec.get("mode") == "file":
            total -= spec["file"].get("offset", 0)
        cl = spec.get("cl")
        if cl == "exact":
            headers.append(("Content-Length", str(total)))
        elif cl == "cut":
            headers.append(("Content-Length", str(max(0, total - spec.get("cut_by", 1)))))
        elif cl == "zero":
            headers.append(("Content-Length", "0"))
        elif cl == "over":
            headers.append(("Content-Length", str(total + spec.get("over_by", 1))))      # announces more than the body holds
        status = spec.get("status", "200 OK")

        def start():
            rec["start_calls"] += 1
            if spec.get("exc_info_retry"):
                start_response("500 First Try", [("X-First", "1")])
                try:
                    raise ValueError("first attempt failed")
                except ValueError:
                    import sys
                    return start_response(status, headers, sys.exc_info())
            return start_response(status, headers)

        mode = spec.get("mode", "list")
        if mode in ("write", "write+iter"):
            w = start()
            if spec.get("read_when") in ("after_start", "after_first_chunk") and not chunks:
                read_input()
            if spec.get("fail") == "after_start":
                rec["failed_at"] = "after_start"
                raise make_failure(spec.get("fail_exc"), "after start_response")
            k = len(chunks) if mode == "write" else len(chunks) // 2
            for ci, c in enumerate(chunks[:k]):
                w(c)
                rec["produced"].append(c)
                if ci == 0 and spec.get("read_when") in ("after_start", "after_first_chunk"):
                    read_input()            # write() has put the head and the first chunk on the wire
            return _Iter(self, None, chunks[k:])
        if mode == "file":
            f = spec["file"]
            data = b"".join(chunks)
            if f["kind"] == "bytesio":
                fobj = io.BytesIO(data)
            else:
                fd, path = tempfile.mkstemp(prefix="c02-", dir=self.scratch)
                os.write(fd, data)
                os.close(fd)
                fobj = open(path, "rb")
                os.unlink(path)
            fobj.seek(f.get("offset", 0))
            start()
            if spec.get("fail") == "after_start":
                rec["failed_at"] = "after_start"
                raise make_failure(spec.get("fail_exc"), "after start_response")
            rec["produced"].append(data[f.get("offset", 0):])
            rec["fileobj"] = fobj
            return environ["wsgi.file_wrapper"](fobj)
        lazy = spec.get("lazy_start", False) and mode == "gen"
        if not lazy:
            start()
            if spec.get("read_when") == "after_start":
                read_input()
            if spec.get("fail") == "after_start":
                rec["failed_at"] = "after_start"
                raise make_failure(spec.get("fail_exc"), "after start_response")
        if mode == "list" and not isinstance(spec.get("fail"), list):
            rec["produced"].extend(chunks)
            return list(chunks)
        return _Iter(self, start if lazy else None, chunks)

    def expected_body(self, method, status_code):
        """Output model: concatenation of produced chunks cut at a declared Content-Length."""
        chunks = self.body_chunks()
        data = b"".join(chunks)
        if self.spec.get("mode") == "file":
            data = data[self.spec["file"].get("offset", 0):]
        cl = self.spec.get("cl")
        total = len(data)
        if cl == "cut":
            data = data[:max(0, total - self.spec.get("cut_by", 1))]
        elif cl == "zero":
            data = b""
        return data
