"""Engine E6 `pidfile-lab`: the real gunicorn.pidfile.Pidfile in several real processes, plus
crash injection at every call Pidfile makes into `os`, `tempfile` and `open`.

Helpers
  A helper is a forked child of the calling (shard) process that owns one real Pidfile object and
  obeys a JSON-lines command loop over a pipe pair: new / create (pid = its own os.getpid(), as the
  arbiter does) / validate / rename / unlink.  It may drop to an unprivileged uid first so that
  kill(pid, 0) against a root-owned process answers EPERM.  The harness always waitpid()s its own
  children (PID 1 in this sandbox does not reap, and a zombie still answers kill(pid, 0)).
  A command may carry "obj": <name> to address a further Pidfile object of the same process (what Arbiter.reload()
  has while the `pidfile` setting changes); chdir sets the directory relative names mean.  arbiter_boot /
  arbiter_reload / arbiter_halt drive the pid file handling of a real gunicorn.arbiter.Arbiter (see
  _arbiter_for_reload) in the helper.

Crash lab
  `crash_run(...)` forks a child in which the module attributes `gunicorn.pidfile.os`,
  `gunicorn.pidfile.tempfile` and the module global `gunicorn.pidfile.open` are replaced by proxies
  that count every call (os.getpid and non-callables such as os.path pass through uncounted) and
  os._exit(137) immediately before / after the k-th call, or after a short write.

Gated helpers (races)
  A helper can also run an operation *gated*: the same proxies are installed in the helper process, but
  instead of crashing, every proxied call is a scheduling point - the helper reports {"at": call} and
  parks until the harness answers {"go": true}; it then performs that one call and runs on to the next
  scheduling point (or to the end of the operation).  The harness thereby interleaves the system calls
  of two or three real processes deterministically and reads the pid path between any two of them.

Restricted deployment (crash lab)
  scn["deploy"] == "restricted": the target lives in a root-owned 0755 directory, the pre-existing
  target file belongs to the unprivileged uid the forked child drops to before it runs the operation
  (the old name of a rename lives in a writable sub-directory "ow").

Nothing here judges anything; the oracle lives in checks/c17.py.
"""
import ctypes
import errno
import json
import os
import select
import shutil
import signal
import time

from vlib import common
from vlib.common import use_repo

use_repo()
import gunicorn.pidfile as gp            # noqa: E402

_real_os = os
CRASH_EXIT = 137
RESTRICTED_UID = 65534                  # nobody: the unprivileged service user of the "restricted deployment" cells
MORGUE_AGE = 2.0


def _scratch(tag):
    """VERIF_SCRATCH if set; otherwise tmpfs when there is one (sixteen shards creating, renaming and
    unlinking files serialise on the ext4 journal of /var/tmp), else common.scratch_dir's default."""
    import tempfile
    if not os.environ.get("VERIF_SCRATCH") and os.path.isdir("/dev/shm") and os.access("/dev/shm", os.W_OK):
        return tempfile.mkdtemp(prefix="gunicorn-verif-%s-" % tag, dir="/dev/shm")
    return common.scratch_dir(tag)
REPLY_TIMEOUT = 20.0


class HelperTimeout(Exception):
    pass


class HelperDied(Exception):
    pass


def _pdeathsig():
    try:
        ctypes.CDLL(None, use_errno=True).prctl(1, signal.SIGKILL, 0, 0, 0)
    except Exception:
        pass


def pid_is_dead(pid):
    """True iff kill(pid, 0) says ESRCH right now (zombies answer success, so callers reap first)."""
    try:
        os.kill(pid, 0)
        return False
    except OSError as e:
        return e.errno == errno.ESRCH


class Helper:
    """One real process owning one real Pidfile."""

    def __init__(self, lab, uid=0):
        self.lab = lab
        self.uid = uid
        c_r, c_w = os.pipe()      # commands  parent -> child
        r_r, r_w = os.pipe()      # replies   child -> parent
        pid = os.fork()
        if pid == 0:
            try:
                _pdeathsig()
                os.close(c_w)
                os.close(r_r)
                for fd in lab.parent_fds():
                    try:
                        os.close(fd)
                    except OSError:
                        pass
                if uid:
                    os.setgroups([])
                    os.setgid(uid)
                    os.setuid(uid)
                _helper_loop(c_r, r_w)
            finally:
                os._exit(0)
        os.close(c_r)
        os.close(r_w)
        self.pid = pid
        self.cmd_fd = c_w
        self.rep_fd = r_r
        self.alive = True
        self.buf = b""

    def call(self, **cmd):
        if not self.alive:
            raise HelperDied("helper %d is not alive" % self.pid)
        os.write(self.cmd_fd, (json.dumps(cmd) + "\n").encode())
        deadline = time.time() + REPLY_TIMEOUT
        while b"\n" not in self.buf:
            left = deadline - time.time()
            if left <= 0:
                raise HelperTimeout("helper %d did not answer %r" % (self.pid, cmd))
            r, _, _ = select.select([self.rep_fd], [], [], left)
            if not r:
                continue
            d = os.read(self.rep_fd, 65536)
            if not d:
                raise HelperDied("helper %d closed its pipe during %r" % (self.pid, cmd))
            self.buf += d
        line, self.buf = self.buf.split(b"\n", 1)
        return json.loads(line)

    def kill(self):
        """SIGKILL + reap; afterwards the pid is dead (verified)."""
        if self.alive:
            try:
                os.kill(self.pid, signal.SIGKILL)
            except ProcessLookupError:
                pass
            os.waitpid(self.pid, 0)
            self.alive = False
        for fd in (self.cmd_fd, self.rep_fd):
            try:
                os.close(fd)
            except OSError:
                pass
        self.cmd_fd = self.rep_fd = -1


class _Lines:
    """Command lines of the helper's pipe (shared by the command loop and the gate)."""

    def __init__(self, fd):
        self.fd = fd
        self.buf = b""

    def next(self):
        while b"\n" not in self.buf:
            d = os.read(self.fd, 65536)
            if not d:
                return None
            self.buf += d
        line, self.buf = self.buf.split(b"\n", 1)
        return json.loads(line)


class GateAbort(BaseException):
    """The harness gave up on a gated operation (not an Exception: Pidfile.unlink swallows those)."""


def _brief(a):
    out = []
    for x in a[:3]:
        if isinstance(x, (str, bytes)):
            x = os.path.basename(x) if isinstance(x, str) and "/" in x else x
        out.append(repr(x)[:40])
    return ",".join(out)


class Gate:
    """Same interface as Injector.wrap; every proxied call is a scheduling point when armed."""

    def __init__(self, lines, wfd):
        self.lines = lines
        self.wfd = wfd
        self.armed = False
        self.n = 0

    def wrap(self, name, fn, short=None):
        gate = self

        def w(*a, **kw):
            if not gate.armed:
                return fn(*a, **kw)
            gate.n += 1
            _real_os.write(gate.wfd, (json.dumps({"at": name, "n": gate.n, "args": _brief(a)}) + "\n").encode())
            msg = gate.lines.next()
            if msg is None:
                _real_os._exit(0)
            if not msg.get("go"):
                raise GateAbort()
            return fn(*a, **kw)
        return w


class _NullLog:
    def __getattr__(self, name):
        return lambda *a, **kw: None


def _arbiter_for_reload(fname):
    """A real gunicorn.arbiter.Arbiter (real __init__, real setup(), real reload()) around a stand-in application whose
    configuration is a real gunicorn Config with workers = 0 and nothing to listen on: what is left of reload() is what it
    does with the pid file.  It never forks: spawning is a no-op here (helpers must stay single processes)."""
    from gunicorn.arbiter import Arbiter
    from gunicorn.config import Config

    class App:
        def __init__(self):
            self.cfg = Config()
            self.cfg.set("workers", 0)
            self.cfg.set("errorlog", "/dev/null")
            self.cfg.set("pidfile", fname)

        def reload(self):               # the harness edits self.cfg in place before it asks for the reload
            pass

        def wsgi(self):
            return None

    class Lab(Arbiter):
        LISTENERS = []
        WORKERS = {}

        def spawn_worker(self):
            return None

        def spawn_workers(self):
            return None

    a = Lab(App())
    a.log = _NullLog()
    # what Arbiter.start() does about the pid file
    a.pid = os.getpid()
    if a.cfg.pidfile is not None:
        a.pidfile = gp.Pidfile(a.cfg.pidfile)
        a.pidfile.create(a.pid)
    return a


def _helper_loop(rfd, wfd):
    P = None
    objs = {}                           # further Pidfile objects of this process, by name (cmd["obj"]); None = the first one
    arb = None
    lines = _Lines(rfd)
    gate = None
    while True:
        cmd = lines.next()
        if cmd is None:
            return
        op = cmd["op"]
        out = {"ok": True, "ret": None}
        first = P
        if cmd.get("obj") is not None:
            P = objs.get(cmd["obj"])
        if cmd.get("gated"):
            if gate is None:
                gate = Gate(lines, wfd)
                install(gate)
            gate.n = 0
            gate.armed = True
        try:
            if op == "new":
                P = gp.Pidfile(cmd["fname"])
                if cmd.get("obj") is not None:
                    objs[cmd["obj"]] = P
            elif op == "arbiter_boot":
                arb = None
                arb = _arbiter_for_reload(cmd["fname"])
            elif op == "arbiter_reload":
                # the administrator edited the setting; SIGHUP
                arb.app.cfg.set("pidfile", cmd["fname"])
                arb.reload()
            elif op == "arbiter_halt":
                # what Arbiter.halt() / stop() do about the pid file
                if arb.pidfile is not None:
                    arb.pidfile.unlink()
            elif op == "create":
                out["ret"] = P.create(os.getpid())
            elif op == "validate":
                out["ret"] = P.validate()
            elif op == "rename":
                out["ret"] = P.rename(cmd["path"])
            elif op == "unlink":
                out["ret"] = P.unlink()
            elif op == "chdir":
                os.chdir(cmd["path"])
            elif op == "ping":
                pass
            else:
                out = {"ok": False, "exc": "BadCommand", "msg": op}
        except BaseException as e:      # noqa: BLE001 - the reply must always be sent
            out = {"ok": False, "exc": type(e).__name__, "msg": str(e)[:200]}
        if gate is not None:
            gate.armed = False
            out["calls"] = gate.n
        if op.startswith("arbiter_"):
            pf = getattr(arb, "pidfile", None)
            out["arbiter_fname"] = getattr(pf, "fname", None)
        elif P is not None:
            out["fname"] = P.fname
            out["pid_attr"] = P.pid if isinstance(P.pid, int) else repr(P.pid)
        if cmd.get("obj") is not None:
            P = first
        if not isinstance(out.get("ret"), (int, type(None))):
            out["ret"] = repr(out["ret"])
        os.write(wfd, (json.dumps(out) + "\n").encode())


class Lab:
    """Scratch directory + helper slots + harness-side file access."""

    def __init__(self, tag="c17"):
        self.dir = _scratch(tag)
        os.chmod(self.dir, 0o777)         # unprivileged helpers create / rename / unlink here
        self.helpers = []
        self.forks = 0
        self.morgue = []                  # (time of death, pid) of reaped children, newest last

    def parent_fds(self):
        fds = []
        for h in self.helpers:
            if h.alive:
                fds += [h.cmd_fd, h.rep_fd]
        return fds

    def spawn(self, uid=0):
        h = Helper(self, uid)
        self.forks += 1
        self.helpers.append(h)
        return h

    def retire(self, h):
        was = h.alive
        h.kill()
        if was:
            self.bury(h.pid)
        if h in self.helpers:
            self.helpers.remove(h)

    def bury(self, pid):
        self.morgue.append((time.time(), pid))
        del self.morgue[:-32]

    def fresh_dead_pid(self, exclude=()):
        """Pid of a child of ours that has exited and has been reaped; ESRCH verified right now.
        Recently reaped children (helpers killed in earlier histories, at most MORGUE_AGE seconds ago:
        pid numbers are handed out cyclically, so the most recently freed one is the last to come back)
        are used before forking a new one."""
        now = time.time()
        while self.morgue:
            t, pid = self.morgue.pop()
            if now - t > MORGUE_AGE:
                self.morgue = []
                break
            if pid not in exclude and pid_is_dead(pid):
                return pid
        for _ in range(20):
            pid = os.fork()
            if pid == 0:
                os._exit(0)
            self.forks += 1
            os.waitpid(pid, 0)
            if pid_is_dead(pid):
                return pid
        raise RuntimeError("could not obtain a dead pid")

    def path(self, name):
        return os.path.join(self.dir, name)

    def read(self, name):
        try:
            with open(self.path(name), "rb") as f:
                return f.read()
        except FileNotFoundError:
            return None

    def write(self, name, data):
        """Foreign overwrite: the harness writes the content (0644, so every helper can read it)."""
        p = self.path(name)
        fd = os.open(p, os.O_WRONLY | os.O_CREAT | os.O_TRUNC, 0o644)
        try:
            os.write(fd, data)
            os.fchmod(fd, 0o644)
        finally:
            os.close(fd)

    def listing(self):
        return sorted(os.listdir(self.dir))

    def clean(self):
        for n in os.listdir(self.dir):
            p = os.path.join(self.dir, n)
            try:
                os.unlink(p)
            except IsADirectoryError:
                shutil.rmtree(p, ignore_errors=True)
            except FileNotFoundError:
                pass

    def close(self):
        for h in list(self.helpers):
            self.retire(h)
        shutil.rmtree(self.dir, ignore_errors=True)


# ---- crash injection ---------------------------------------------------------------------------

class Injector:
    """Counts proxied calls; crashes at the k-th (1-based) when armed.
    mode: None (count only) | "before" | "after" | "short:<n>" (n >= 0: first n bytes, n < 0: all but
    the last -n bytes; only meaningful on a write call, otherwise behaves like "before")."""

    def __init__(self, k=0, mode=None):
        self.k = k
        self.mode = mode
        self.n = 0
        self.calls = []
        self.armed = False

    def wrap(self, name, fn, short=None):
        inj = self

        def w(*a, **kw):
            if not inj.armed:
                return fn(*a, **kw)
            inj.n += 1
            idx = inj.n
            inj.calls.append(name)
            hit = idx == inj.k and inj.mode is not None
            if hit and inj.mode == "before":
                _real_os._exit(CRASH_EXIT)
            if hit and inj.mode.startswith("short:"):
                if short is not None:
                    short(int(inj.mode[6:]), *a, **kw)
                _real_os._exit(CRASH_EXIT)
            try:
                return fn(*a, **kw)
            finally:
                if hit and inj.mode == "after":
                    _real_os._exit(CRASH_EXIT)
        return w


class ModProxy:
    """Stands for a module (`os`, `tempfile`) inside gunicorn.pidfile: every callable attribute is
    counted, everything else (os.path, constants) and the names in `plain` pass through."""

    def __init__(self, inj, real, label, plain=()):
        object.__setattr__(self, "_inj", inj)
        object.__setattr__(self, "_real", real)
        object.__setattr__(self, "_label", label)
        object.__setattr__(self, "_plain", set(plain))

    def __getattr__(self, name):
        v = getattr(self._real, name)
        if name in self._plain or not callable(v) or isinstance(v, type):
            return v
        short = None
        if self._label == "os" and name == "write":
            def short(n, fd, data):
                cut = data[:n] if n >= 0 else data[:len(data) + n]
                if cut:
                    _real_os.write(fd, cut)
        return self._inj.wrap("%s.%s" % (self._label, name), v, short)


class FileProxy:
    """Stands for the object returned by the builtin open() inside gunicorn.pidfile."""

    def __init__(self, inj, f):
        self._inj = inj
        self._f = f

    def __enter__(self):
        return self

    def __exit__(self, *exc):
        self._inj.wrap("file.close", self._f.close)()
        return False

    def __iter__(self):
        return iter(self._f)

    def __getattr__(self, name):
        v = getattr(self._f, name)
        if not callable(v):
            return v
        short = None
        if name == "write":
            f = self._f

            def short(n, data):
                cut = data[:n] if n >= 0 else data[:len(data) + n]
                f.write(cut)
                f.flush()
        return self._inj.wrap("file.%s" % name, v, short)


def install(inj):
    """Replace os / tempfile / open inside gunicorn.pidfile (call in a forked child only)."""
    import builtins
    import tempfile as real_tempfile
    gp.os = ModProxy(inj, _real_os, "os", plain=("getpid", "fspath", "fsencode", "fsdecode"))
    gp.tempfile = ModProxy(inj, real_tempfile, "tempfile")

    def open_(*a, **kw):
        return FileProxy(inj, builtins.open(*a, **kw))
    gp.open = inj.wrap("open", open_)


def crash_child(scn, k, mode, workdir, report_fd):
    """Runs in the forked child.  scn: {"op": create|rename|unlink, "pre": ..., "new_pre": ...,
    "relative": bool, "live_pid": int, "dead_pid": int}.  Never returns."""
    code = 0
    try:
        _pdeathsig()
        me = os.getpid()
        os.chdir(workdir)
        base = "" if scn.get("relative") else workdir
        restricted = scn.get("deploy") == "restricted"
        tgt = os.path.join(base, "T")
        old = os.path.join(base, "ow", "O") if restricted else os.path.join(base, "O")
        inj = Injector(k, mode)
        install(inj)

        def prestate(path, what):
            data = prestate_bytes(what, me, scn)
            if data is not None:
                with open(path, "wb") as f:
                    f.write(data)
                os.chmod(path, 0o644)
                if restricted:
                    os.chown(path, RESTRICTED_UID, RESTRICTED_UID)

        op = scn["op"]
        if restricted:
            # the directory of the target stays root's (0755); the target itself, if any, is handed to the service user
            os.chmod(workdir, 0o755)
            os.mkdir(os.path.join(workdir, "ow"))
            os.chmod(os.path.join(workdir, "ow"), 0o777)
            prestate(tgt, scn["pre"])
            os.setgroups([])
            os.setgid(RESTRICTED_UID)
            os.setuid(RESTRICTED_UID)
        if op == "create":
            if not restricted:
                prestate(tgt, scn["pre"])
            P = gp.Pidfile(tgt)
            inj.armed = True
            try:
                P.create(me)
            except RuntimeError:
                code = 4
            except PermissionError:
                code = 5
        elif op == "rename":
            P = gp.Pidfile(old)
            P.create(me)                  # un-armed: the old name holds our pid, written by Pidfile
            if not restricted:
                prestate(tgt, scn["pre"])
            inj.armed = True
            try:
                P.rename(tgt)
            except RuntimeError:
                code = 4
            except PermissionError:
                code = 5
        elif op == "unlink":
            P = gp.Pidfile(tgt)
            P.create(me)
            if scn["pre"] != "own":
                os.unlink(tgt)
                prestate(tgt, scn["pre"])
            inj.armed = True
            P.unlink()
        inj.armed = False
        if report_fd is not None:
            os.write(report_fd, json.dumps({"calls": inj.calls}).encode())
    except BaseException as e:          # noqa: BLE001
        code = 3
        try:
            if report_fd is not None:
                os.write(report_fd, json.dumps({"error": "%s: %s" % (type(e).__name__, e)}).encode())
        except Exception:
            pass
    finally:
        os._exit(code)


def prestate_bytes(what, me, scn):
    if what == "absent":
        return None
    if what == "own":
        return b"%d\n" % me
    if what == "stale":
        return b"%d\n" % scn["dead_pid"]
    if what == "live":
        return b"%d\n" % scn["live_pid"]
    if what == "garbage":
        return b"not-a-pid\n"
    if what == "empty":
        return b""
    raise ValueError(what)


def crash_run(scn, k, mode, workdir):
    """Fork, run scn with a crash at (k, mode) (k=0/mode=None: count only).
    Returns dict(pid, status, exit, calls|None, error|None)."""
    r, w = os.pipe()
    pid = os.fork()
    if pid == 0:
        os.close(r)
        crash_child(scn, k, mode, workdir, w)
    os.close(w)
    chunks = []
    while True:
        d = os.read(r, 65536)
        if not d:
            break
        chunks.append(d)
    os.close(r)
    _, status = os.waitpid(pid, 0)
    out = {"pid": pid, "status": status,
           "exit": os.WEXITSTATUS(status) if os.WIFEXITED(status) else -os.WTERMSIG(status),
           "calls": None, "error": None}
    if chunks:
        try:
            rep = json.loads(b"".join(chunks))
            out["calls"] = rep.get("calls")
            out["error"] = rep.get("error")
        except ValueError:
            out["error"] = "unparsable child report"
    return out
