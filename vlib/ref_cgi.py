"""Independent CGI / PEP 3333 mapping of a raw HTTP/1.x request head to environ variables
(RFC 3875 4.1, PEP 3333 'environ Variables').  No gunicorn import.

expected(raw_request_line_target, method, version, header_lines, script_name) -> dict with
REQUEST_METHOD, RAW_URI, SERVER_PROTOCOL, QUERY_STRING, PATH_INFO, SCRIPT_NAME, CONTENT_LENGTH,
CONTENT_TYPE (when judged) and every HTTP_* key; plus "not_judged": set of keys left open.
"""
HEX = b"0123456789abcdefABCDEF"


def pct_decode(b):
    out = bytearray()
    i = 0
    n = len(b)
    while i < n:
        c = b[i]
        if c == 0x25 and i + 2 < n and b[i + 1] in HEX and b[i + 2] in HEX:
            out.append(int(b[i + 1:i + 3], 16))
            i += 3
        else:
            out.append(c)
            i += 1
    return bytes(out)


def split_target(target):
    """target: bytes. Returns (form, path_bytes, query_bytes) or (form, None, None) if not judged."""
    if target == b"*":
        return "asterisk", b"*", b""
    rest = target
    form = "origin"
    if not target.startswith(b"/"):
        p = target.find(b"://")
        if p > 0 and target[:p].isalpha():
            form = "absolute"
            after = target[p + 3:]
            # authority ends at the first of / ? #
            cut = len(after)
            for ch in b"/?#":
                k = after.find(bytes([ch]))
                if k >= 0:
                    cut = min(cut, k)
            rest = after[cut:]
        else:
            return "other", None, None
    h = rest.find(b"#")
    if h >= 0:
        rest = rest[:h]
    q = rest.find(b"?")
    if q >= 0:
        return form, rest[:q], rest[q + 1:]
    return form, rest, b""


def expected(method, target, version, header_lines, script_name="", header_map="drop", trusted_script_header=False,
             forwarder_names=()):
    """header_lines: list of (name bytes, value bytes already OWS-trimmed) in wire order.
    forwarder_names: upper-case names (str) that are mapped although they contain an underscore (the configured forwarder
    headers when the peer is a trusted front-end)."""
    env = {}
    nj = set()
    env["REQUEST_METHOD"] = method.decode("latin-1")
    env["RAW_URI"] = target.decode("latin-1")
    env["SERVER_PROTOCOL"] = "HTTP/%d.%d" % version
    form, path, query = split_target(target)
    if path is None:
        nj.update(["PATH_INFO", "QUERY_STRING", "SCRIPT_NAME"])
    else:
        env["QUERY_STRING"] = query.decode("latin-1")
        sn = script_name.encode("latin-1")
        if sn and not path.startswith(sn):
            nj.update(["PATH_INFO", "SCRIPT_NAME"])
            env["_script_mismatch_path"] = pct_decode(path).decode("latin-1")
        else:
            env["SCRIPT_NAME"] = script_name
            env["PATH_INFO"] = pct_decode(path[len(sn):]).decode("latin-1")
    http = {}
    ct = []
    cl = []
    for name, value in header_lines:
        up = name.decode("latin-1").upper()
        val = value.decode("latin-1")
        if b"_" in name and header_map == "drop" and up not in forwarder_names:
            continue
        if up == "CONTENT-TYPE":
            ct.append(val)
            continue
        if up == "CONTENT-LENGTH":
            cl.append(val)
            continue
        http.setdefault("HTTP_" + up.replace("-", "_"), []).append(val)
    if len(ct) == 1:
        env["CONTENT_TYPE"] = ct[0]
    elif len(ct) > 1:
        nj.add("CONTENT_TYPE")
    if len(cl) == 1:
        env["CONTENT_LENGTH"] = cl[0]
    env["_http"] = http
    env["_not_judged"] = nj
    env["_form"] = form
    return env


def http_value_matches(got, values):
    """values joined by ',' in order; one optional space after each comma tolerated."""
    if got == ",".join(values) or got == ", ".join(values):
        return True
    # general: walk
    pos = 0
    for i, v in enumerate(values):
        if i:
            if got[pos:pos + 2] == ", ":
                pos += 2
            elif got[pos:pos + 1] == ",":
                pos += 1
            else:
                return False
        if got[pos:pos + len(v)] != v:
            return False
        pos += len(v)
    return pos == len(got)
