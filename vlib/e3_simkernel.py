"""Engine E3: the real Arbiter.run() on a simulated kernel with virtual time.

Only the OS-facing module attributes of gunicorn.arbiter (os, time, select, signal, random, sock,
systemd) are substituted by facades of a SimKernel; the arbiter code itself is untouched.
fork() allocates a pid in a process table (parent side only), kill()/waitpid() have faithful
ESRCH / ECHILD / (0,0) semantics, select()/sleep() advance a virtual clock, the self-pipe stays a
real pipe.  Workers are SimWorker objects whose tmp.last_update() is a scripted heartbeat.

A seeded scheduler owns everything the environment does: worker exits (any status / signal),
how workers react to TERM/QUIT/ABRT/KILL, TTIN/TTOU/HUP/TERM/INT/QUIT delivered through the handler
the arbiter registered, and the points at which a child death (and with it SIGCHLD, handled by
calling the registered handler in the main thread, never re-entrantly) happens: at the return of a
simulated system call and at sys.monitoring LINE events inside gunicorn/arbiter.py.
"""
import errno
import os as real_os
import select as real_select
import signal as real_signal
import sys
import time as real_time

from vlib.common import use_repo

use_repo()
import gunicorn.arbiter as arb_mod          # noqa: E402
from gunicorn.config import Config          # noqa: E402

MASTER_PID = 1000
SIGNAMES = {"TTIN": real_signal.SIGTTIN, "TTOU": real_signal.SIGTTOU, "HUP": real_signal.SIGHUP,
            "TERM": real_signal.SIGTERM, "INT": real_signal.SIGINT, "QUIT": real_signal.SIGQUIT,
            "USR1": real_signal.SIGUSR1, "WINCH": real_signal.SIGWINCH}


class EndOfSimulation(BaseException):
    pass


class Proc:
    __slots__ = ("pid", "age", "worker", "state", "status", "born", "died", "policy", "sent", "spawn_index",
                 "reaped_at", "fork_point", "tracked_at_reap")

    def __init__(self, pid, worker, born, policy, spawn_index):
        self.pid = pid
        self.worker = worker
        self.age = getattr(worker, "age", None)
        self.state = "run"          # run | zombie | reaped
        self.status = None
        self.born = born
        self.died = None
        self.policy = policy
        self.sent = []              # (t, sig) signals sent by the master
        self.spawn_index = spawn_index
        self.reaped_at = None
        self.fork_point = None      # injection-point counter when fork() was called (None: forked inside the SIGCHLD handler)
        self.tracked_at_reap = None  # was the pid in Arbiter.WORKERS when waitpid() returned it?


class SimTmp:
    def __init__(self, worker):
        self.worker = worker
        self.closed = False

    def last_update(self):
        return SimWorker.kernel.heartbeat_of(self.worker)

    def notify(self):
        pass

    def fileno(self):
        return -1

    def close(self):
        self.closed = True


from gunicorn.workers import base as _base      # noqa: E402


class SimWorker(_base.Worker):
    """A real gunicorn Worker object as the arbiter builds it (so every attribute the arbiter may look at exists);
    only its heartbeat file is replaced by the scripted one."""
    kernel = None
    last = None

    def __init__(self, age, ppid, sockets, app, timeout, cfg, log):
        super().__init__(age, ppid, sockets, app, timeout, cfg, log)
        try:
            self.tmp.close()
        except Exception:
            pass
        self.tmp = SimTmp(self)
        SimWorker.last = self
        SimWorker.kernel.log.append((SimWorker.kernel.now, "worker_object", age, timeout))

    def init_process(self):      # never reached: fork() only returns on the parent side
        raise AssertionError("child branch reached in the simulation")


class SimLogger:
    def __init__(self, cfg):
        self.cfg = cfg
        self.records = []

    def _rec(self, lvl, msg, *a, **kw):
        try:
            self.records.append((lvl, msg % a if a else msg))
        except Exception:
            self.records.append((lvl, msg))

    def debug(self, msg, *a, **kw):
        pass

    def info(self, msg, *a, **kw):
        self._rec("info", msg, *a)

    def warning(self, msg, *a, **kw):
        self._rec("warning", msg, *a)

    def error(self, msg, *a, **kw):
        self._rec("error", msg, *a)

    def critical(self, msg, *a, **kw):
        self._rec("critical", msg, *a)

    def exception(self, msg, *a, **kw):
        self._rec("exception", msg, *a)

    def reopen_files(self):
        pass

    def close_on_exec(self):
        pass


class FakeSock:
    def __init__(self):
        self.closed = False

    def close(self):
        self.closed = True

    def fileno(self):
        return 99

    def __str__(self):
        return "sim://listener"


class SimApp:
    def __init__(self, kernel, cfg):
        self.kernel = kernel
        self.cfg = cfg
        self.reloads = 0

    def reload(self):
        self.reloads += 1
        nw = self.kernel.next_reload_workers
        if nw is not None:
            self.cfg.set("workers", nw)
        self.kernel.log.append((self.kernel.now, "app_reload", nw))

    def wsgi(self):
        return None


class _Passthrough:
    def __init__(self, real):
        object.__setattr__(self, "_real", real)

    def __getattr__(self, name):
        return getattr(object.__getattribute__(self, "_real"), name)


class SimKernel:
    def __init__(self, scenario, schedule):
        self.sc = scenario
        self.schedule = schedule          # object with .fire(kernel, point_index, point_name, armed) -> bool
        self.now = 1000.0
        self.t0 = self.now
        self.procs = {}
        self.next_pid = MASTER_PID + 1
        self.spawn_count = 0
        self.log = []                     # event log (virtual time, kind, ...)
        self.handlers = {}
        self.armed = []                   # [(pid, status)] deaths that may happen at the next injection points
        self.timeline = []                # [(t, seq, kind, payload)] future events
        self._seq = 0
        self.in_handler = False
        self.points = 0
        self.point_names = []
        self.ticks = 0
        self.max_ticks = scenario.get("max_ticks", 400)
        self.next_reload_workers = None
        self.master_signals_this_tick = 0
        self.end_at = None
        self.halting_signal_at = None
        self.deliveries = []              # point indexes at which a death fired
        self.sigchld_calls = 0
        self.exit_code = "running"
        self.reap_log = []
        self.fork_after_boot_failure_reaped = 0
        self.boot_failure_reaped_at = None
        self.monitor_hooks = []           # callables(kind, kernel, **info) invoked on kill / fork / reap
        for ev in scenario.get("events", []):
            self.at(self.t0 + ev["at"], "scripted", ev)

    # ---- timeline -------------------------------------------------------------------------
    def at(self, t, kind, payload):
        self._seq += 1
        self.timeline.append((t, self._seq, kind, payload))
        self.timeline.sort(key=lambda e: (e[0], e[1]))

    def next_event_time(self):
        return self.timeline[0][0] if self.timeline else None

    def fire_due(self):
        """Fire every timeline event with t <= now."""
        while self.timeline and self.timeline[0][0] <= self.now + 1e-9:
            t, _, kind, p = self.timeline.pop(0)
            if kind == "death":
                pid, status = p
                pr = self.procs.get(pid)
                if pr is not None and pr.state == "run" and not any(a[0] == pid for a in self.armed):
                    self.armed.append((pid, status))
            elif kind == "scripted":
                self.fire_scripted(p)

    def live(self):
        return [p for p in self.procs.values() if p.state == "run"]

    def fire_scripted(self, ev):
        typ = ev["type"]
        if typ == "worker_exit":
            live = sorted(self.live(), key=lambda p: p.pid)
            live = [p for p in live if not any(a[0] == p.pid for a in self.armed)]
            if not live:
                self.log.append((self.now, "scripted_exit_skipped", ev.get("which")))
                return
            which = ev.get("which", 0)
            pr = live[which % len(live)]
            status = ev["signal"] if ev.get("signal") else (ev.get("status", 0) << 8)
            self.log.append((self.now, "scripted_exit", pr.pid, status))
            self.armed.append((pr.pid, status))
        elif typ == "signal":
            sig = SIGNAMES[ev["sig"]]
            if ev["sig"] == "HUP":
                self.next_reload_workers = ev.get("new_workers")
            if ev["sig"] in ("TERM", "INT", "QUIT") and self.halting_signal_at is None:
                self.halting_signal_at = self.now
            self.log.append((self.now, "signal_to_master", ev["sig"], ev.get("new_workers")))
            h = self.handlers.get(sig)
            if h is not None:
                self.master_signals_this_tick += 1
                h(sig, None)
        elif typ == "end":
            self.end_at = self.now

    # ---- injection points -------------------------------------------------------------------
    def signal_point(self, name):
        if self.in_handler:
            return
        self.points += 1
        idx = self.points
        if not self.armed:
            return
        fired = False
        keep = []
        for pid, status in self.armed:
            pr = self.procs.get(pid)
            if pr is None or pr.state != "run":
                continue
            if self.schedule.fire(self, idx, name, pid):
                pr.state = "zombie"
                pr.status = status
                pr.died = self.now
                self.log.append((self.now, "child_died", pid, status, idx, name))
                self.deliveries.append((idx, str(name)))
                fired = True
            else:
                keep.append((pid, status))
        self.armed = keep
        if fired:
            h = self.handlers.get(real_signal.SIGCHLD)
            if h is not None:
                self.in_handler = True
                self.sigchld_calls += 1
                try:
                    h(real_signal.SIGCHLD, None)
                finally:
                    self.in_handler = False

    def force_armed(self):
        """Time is about to advance: everything armed happens now (a death cannot wait for a later tick)."""
        if self.armed and not self.in_handler:
            old = self.schedule
            self.schedule = _Always()
            try:
                self.signal_point("before-time-advance")
            finally:
                self.schedule = old

    # ---- heartbeat --------------------------------------------------------------------------
    def heartbeat_of(self, worker):
        pr = None
        for p in self.procs.values():
            if p.worker is worker:
                pr = p
                break
        if pr is None:
            return self.now
        pol = pr.policy
        gap = pol.get("hb_gap")
        if gap is None:
            gap = max(0.01, (self.sc.get("timeout", 30) or 30) / 2.0)
        end = self.now
        if pr.died is not None:
            end = min(end, pr.died)
        if pol.get("hang_at") is not None:
            end = min(end, pr.born + pol["hang_at"])
        if end < pr.born:
            return pr.born
        k = int((end - pr.born) / gap + 1e-9)
        return pr.born + k * gap

    # ---- process table ----------------------------------------------------------------------
    def policy_for_spawn(self, i):
        pols = self.sc.get("spawn_policy", {})
        return dict(self.sc.get("default_policy", {}), **pols.get(str(i), {}))

    def do_fork(self):
        pid = self.next_pid
        self.next_pid += 1
        i = self.spawn_count
        self.spawn_count += 1
        pol = self.policy_for_spawn(i)
        pr = Proc(pid, SimWorker.last, self.now, pol, i)
        if not self.in_handler:
            pr.fork_point = self.points
        self.procs[pid] = pr
        self.log.append((self.now, "fork", pid, pr.age, self.points))
        if self.boot_failure_reaped_at is not None:
            self.fork_after_boot_failure_reaped += 1
        for hook in self.monitor_hooks:
            hook("fork", self, pid=pid)
        if pol.get("die_after") is not None:
            status = pol.get("die_signal") or (pol.get("die_status", 0) << 8)
            if pol["die_after"] <= 0:
                self.armed.append((pid, status))
            else:
                self.at(self.now + pol["die_after"], "death", (pid, status))
        return pid

    def do_kill(self, pid, sig):
        pr = self.procs.get(pid)
        self.log.append((self.now, "kill", pid, int(sig), None if pr is None else pr.state))
        for hook in self.monitor_hooks:
            hook("kill", self, pid=pid, sig=int(sig))
        if pr is None or pr.state == "reaped":
            raise OSError(errno.ESRCH, "No such process")
        pr.sent.append((self.now, int(sig)))
        if pr.state == "zombie" or sig == 0:
            return
        pol = pr.policy
        if sig == real_signal.SIGKILL:
            self.armed.append((pid, int(real_signal.SIGKILL)))
        elif sig == real_signal.SIGTERM:
            if pol.get("boot_time") and self.now < pr.born + pol["boot_time"]:
                # the child has not installed its own handlers yet: the signal is swallowed by the handler it inherited
                self.log.append((self.now, "term_lost_during_boot", pid))
            elif not pol.get("ignore_term"):
                d = pol.get("term_delay", 0.0)
                if d <= 0:
                    self.armed.append((pid, 0))
                else:
                    self.at(self.now + d, "death", (pid, 0))
        elif sig == real_signal.SIGQUIT or sig == real_signal.SIGINT:
            if not pol.get("ignore_quit"):
                d = pol.get("quit_delay", 0.0)
                if d <= 0:
                    self.armed.append((pid, 0))
                else:
                    self.at(self.now + d, "death", (pid, 0))
        elif sig == real_signal.SIGABRT:
            if not pol.get("ignore_abrt"):
                self.armed.append((pid, 1 << 8))      # handle_abort: sys.exit(1)

    def do_waitpid(self, pid, options):
        kids = [p for p in self.procs.values() if p.state in ("run", "zombie")]
        if not kids:
            raise OSError(errno.ECHILD, "No child processes")
        z = sorted([p for p in kids if p.state == "zombie"], key=lambda p: p.died)
        if not z:
            return (0, 0)
        pr = z[0]
        pr.state = "reaped"
        pr.reaped_at = self.now
        pr.tracked_at_reap = pr.pid in arb_mod.Arbiter.WORKERS
        self.log.append((self.now, "reaped", pr.pid, pr.status))
        code = pr.status >> 8
        if code in (3, 4) and self.boot_failure_reaped_at is None:
            self.boot_failure_reaped_at = self.now
        for hook in self.monitor_hooks:
            hook("reap", self, pid=pr.pid, status=pr.status)
        return (pr.pid, pr.status)

    # ---- time -------------------------------------------------------------------------------
    def advance(self, upto):
        """Advance virtual time towards `upto`, stopping at the first due event. Returns True if
        something fired."""
        self.force_armed()
        nxt = self.next_event_time()
        if nxt is not None and nxt <= upto:
            self.now = max(self.now, nxt)
            self.fire_due()
            return True
        self.now = max(self.now, upto)
        return False

    def check_end(self):
        self.ticks += 1
        if self.ticks > self.max_ticks:
            self.log.append((self.now, "tick_budget_exhausted"))
            raise EndOfSimulation("budget")
        if self.end_at is not None and self.now >= self.end_at and not self.armed:
            raise EndOfSimulation("end")


class _Always:
    def fire(self, kernel, idx, name, pid):
        return True


class RandomSchedule:
    def __init__(self, rng, p=0.25):
        self.rng = rng
        self.p = p

    def fire(self, kernel, idx, name, pid):
        return self.rng.random() < self.p


class IndexSchedule:
    """The n-th death that becomes possible fires exactly at global point index k (or, if that point is
    not reached while it is armed, when time advances)."""

    def __init__(self, k_list):
        self.k_list = list(k_list)

    def fire(self, kernel, idx, name, pid):
        if not self.k_list:
            return True
        if idx >= self.k_list[0]:
            self.k_list.pop(0)
            return True
        return False


class AfterForkSchedule:
    """A child that is scripted to die at once after its own fork (policy die_after == 0) dies exactly `offset` injection
    points after fork() returned in the master: 0 = at the return itself, 1.. = before the source lines of spawn_worker that
    follow (the master records the pid a few lines later).  Every other death happens at the first opportunity."""

    def __init__(self, offset):
        self.offset = offset

    def fire(self, kernel, idx, name, pid):
        pr = kernel.procs.get(pid)
        if pr is not None and pr.fork_point is not None and pr.policy.get("die_after") is not None \
                and pr.policy["die_after"] <= 0 and not pr.sent:
            return idx >= pr.fork_point + 1 + self.offset
        return True


# ---- facades ------------------------------------------------------------------------------------

class OSFacade(_Passthrough):
    def __init__(self, kernel):
        super().__init__(real_os)
        object.__setattr__(self, "k", kernel)

    def fork(self):
        k = object.__getattribute__(self, "k")
        pid = k.do_fork()
        k.signal_point("fork-return")
        return pid

    def kill(self, pid, sig):
        k = object.__getattribute__(self, "k")
        try:
            k.do_kill(pid, sig)
        finally:
            k.signal_point("kill-return")

    def waitpid(self, pid, options):
        k = object.__getattribute__(self, "k")
        return k.do_waitpid(pid, options)

    def getpid(self):
        return MASTER_PID

    def getppid(self):
        return 1


class TimeFacade(_Passthrough):
    def __init__(self, kernel):
        super().__init__(real_time)
        object.__setattr__(self, "k", kernel)

    def time(self):
        k = object.__getattribute__(self, "k")
        k.signal_point("time-return")
        return k.now

    def monotonic(self):
        k = object.__getattribute__(self, "k")
        return k.now

    def sleep(self, d):
        k = object.__getattribute__(self, "k")
        k.check_end()
        target = k.now + max(0.0, d)
        while k.now < target - 1e-12:
            k.advance(target)
            k.signal_point("sleep-wake")
            if k.now < target - 1e-12 and not k.timeline:
                k.now = target
        k.signal_point("sleep-return")


class SelectFacade(_Passthrough):
    def __init__(self, kernel):
        super().__init__(real_select)
        object.__setattr__(self, "k", kernel)

    def select(self, rlist, wlist, xlist, timeout=None):
        k = object.__getattribute__(self, "k")
        k.master_signals_this_tick = 0
        k.log.append((k.now, "select"))
        k.check_end()
        k.signal_point("select-entry")
        r = real_select.select(rlist, [], [], 0)[0]
        if r:
            return (r, [], [])
        target = k.now + (timeout if timeout is not None else 1.0)
        while k.now < target - 1e-12:
            k.advance(target)
            k.signal_point("select-wake")
            r = real_select.select(rlist, [], [], 0)[0]
            if r:
                return (r, [], [])
        k.signal_point("select-return")
        r = real_select.select(rlist, [], [], 0)[0]
        return (r, [], [])


class SignalFacade(_Passthrough):
    def __init__(self, kernel):
        super().__init__(real_signal)
        object.__setattr__(self, "k", kernel)

    def signal(self, signum, handler):
        k = object.__getattribute__(self, "k")
        k.handlers[signum] = handler


class RandomFacade:
    def random(self):
        return 0.0


class SockFacade:
    def __init__(self, kernel):
        self.k = kernel

    def create_sockets(self, cfg, log, fds=None):
        self.k.log.append((self.k.now, "create_sockets"))
        return [FakeSock()]

    def close_sockets(self, listeners, unlink=True):
        self.k.log.append((self.k.now, "close_sockets", len(listeners), unlink))
        for s in listeners:
            s.close()


class SystemdFacade:
    SD_LISTEN_FDS_START = 3

    def listen_fds(self, unset_environment=True):
        return 0

    def sd_notify(self, state, logger, unset_environment=False):
        pass


_TOOL = None


def _install_monitoring(kernel_ref):
    """LINE events in gunicorn/arbiter.py become injection points."""
    global _TOOL
    mon = getattr(sys, "monitoring", None)
    if mon is None:
        return False
    if _TOOL is None:
        _TOOL = 4
        try:
            mon.use_tool_id(_TOOL, "verif-e3")
        except ValueError:
            pass

        def on_line(code, line):
            k = kernel_ref[0]
            if k is not None:
                k.signal_point(("line", line))

        mon.register_callback(_TOOL, mon.events.LINE, on_line)
        import types
        for name in dir(arb_mod.Arbiter):
            f = getattr(arb_mod.Arbiter, name)
            if isinstance(f, types.FunctionType):
                try:
                    mon.set_local_events(_TOOL, f.__code__, mon.events.LINE)
                except Exception:
                    pass
    return True


_kernel_ref = [None]


def run_history(scenario, schedule, lines=True):
    """Run the real Arbiter.run() through one scenario. Returns the kernel (log, process table, exit)."""
    k = SimKernel(scenario, schedule)
    SimWorker.kernel = k
    SimWorker.last = None
    cfg = Config()
    cfg.set("workers", scenario.get("workers", 2))
    cfg.set("timeout", scenario.get("timeout", 30))
    cfg.set("graceful_timeout", scenario.get("graceful_timeout", 5))
    cfg.set("worker_class", SimWorker)
    if scenario.get("reuse_port"):
        cfg.set("reuse_port", True)
    cfg.set("logger_class", SimLogger)
    app = SimApp(k, cfg)
    saved = {n: getattr(arb_mod, n) for n in ("os", "time", "select", "signal", "random", "sock", "systemd")}
    arb_mod.Arbiter.WORKERS.clear()
    del arb_mod.Arbiter.SIG_QUEUE[:]
    arbiter = None
    try:
        arb_mod.os = OSFacade(k)
        arb_mod.time = TimeFacade(k)
        arb_mod.select = SelectFacade(k)
        arb_mod.signal = SignalFacade(k)
        arb_mod.random = RandomFacade()
        arb_mod.sock = SockFacade(k)
        arb_mod.systemd = SystemdFacade()
        arbiter = arb_mod.Arbiter(app)
        k.arbiter = arbiter
        if lines:
            _install_monitoring(_kernel_ref)
            _kernel_ref[0] = k
        try:
            arbiter.run()
            k.exit_code = "returned"
        except SystemExit as e:
            k.exit_code = e.code if e.code is not None else 0
            k.log.append((k.now, "master_exit", k.exit_code))
        except EndOfSimulation as e:
            k.exit_code = "running"
            k.end_reason = str(e)
        except BaseException as e:      # noqa: BLE001 - an escaping exception is an observation
            k.exit_code = "exception:%s" % type(e).__name__
            k.log.append((k.now, "master_exception", type(e).__name__, str(e)[:200]))
    finally:
        _kernel_ref[0] = None
        for n, v in saved.items():
            setattr(arb_mod, n, v)
        if arbiter is not None:
            for p in getattr(arbiter, "PIPE", []) or []:
                try:
                    real_os.close(p)
                except OSError:
                    pass
            k.tracked = sorted(arb_mod.Arbiter.WORKERS.keys())
            k.num_workers = arbiter.num_workers
            k.log_records = arbiter.log.records if hasattr(arbiter.log, "records") else []
        arb_mod.Arbiter.WORKERS.clear()
        del arb_mod.Arbiter.SIG_QUEUE[:]
    return k
