"""Engine E5: the real ThreadWorker.run() under a scripted selector, sockets and executor.

gunicorn.workers.gthread's module attributes `selectors`, `futures` and `time` are substituted so
that the two places where the loop blocks - poller.select() and futures.wait() - hand control to a
seeded scheduler that decides what happened meanwhile: clients connect (scripted listener accept()),
bytes arrive, a handler is released, virtual time passes, a client disconnects, the worker is told to
stop.  Handlers are the real ThreadWorker.handle running in real threads of a small controllable
executor, so finish_request() really runs in a pool thread.  Scripted sockets record every
recv / sendall / close / setblocking; a shadow connection table is updated at those boundary events
and invariants are evaluated at the loop's quiescent points.
"""
import errno
import os
import queue
import threading
import time as real_time
from concurrent import futures as real_futures

from vlib.common import use_repo

use_repo()
import gunicorn.workers.gthread as gt          # noqa: E402
from gunicorn.config import Config             # noqa: E402
from gunicorn import glogging                  # noqa: E402

EVENT_READ = 1


class Budget(BaseException):
    pass


class Conn:
    """Shadow record of one accepted connection."""
    __slots__ = ("cid", "sock", "accepted_at", "registered", "running", "closed_at", "closed_by", "sent", "inbuf",
                 "peer_closed", "handled", "idle_since", "listener", "dispatched_at_iter", "data_arrived_iter",
                 "close_under_handler", "responses_done", "last_keepalive", "early_close", "polls_ready", "waits_ready",
                 "read_unanswered", "parked_seq", "started_seq", "queued_dispatch", "parks", "busy_behind", "repark_behind",
                 "waits_below")

    def __init__(self, cid, sock, now, listener):
        self.cid = cid
        self.sock = sock
        self.accepted_at = now
        self.registered = False
        self.running = None
        self.closed_at = None
        self.closed_by = None
        self.sent = b""
        self.inbuf = b""
        self.peer_closed = False
        self.handled = 0
        self.idle_since = None          # virtual time at which it became an idle keep-alive connection
        self.listener = listener
        self.dispatched_at_iter = None
        self.data_arrived_iter = None
        self.close_under_handler = False
        self.responses_done = 0
        self.last_keepalive = False
        self.early_close = None
        self.polls_ready = 0
        self.waits_ready = 0
        self.read_unanswered = 0        # request bytes taken from the client since the last byte written to it
        self.parked_seq = None          # event number at which it was put back into the poller as an idle keep-alive connection
        self.started_seq = None         # event number at which its current handler started running
        self.queued_dispatch = False    # handed to the pool, handler not started yet
        self.waits_below = 0            # of waits_ready: iterations in which fewer than worker_connections connections were open
        self.parks = 0                  # times it was put back into the poller as an idle keep-alive connection
        self.busy_behind = False        # became busy again while an older, not yet expired idle connection was parked before it
        self.repark_behind = False      # ... and was parked again after that request


class ScriptedSocket:
    def __init__(self, k, cid, listener):
        self.k = k
        self.cid = cid
        self.blocking = True
        self.closed = False
        self.fd = 1000 + cid
        self.conn = Conn(cid, self, k.now, listener)

    def fileno(self):
        if self.closed:
            return -1
        return self.fd

    def setblocking(self, v):
        self.blocking = bool(v)

    def settimeout(self, v):
        self.blocking = v is None or v > 0

    def gettimeout(self):
        return None if self.blocking else 0.0

    def getpeername(self):
        return ("10.0.0.%d" % (self.cid % 250), 5000 + self.cid)

    def recv(self, n):
        k = self.k
        c = self.conn
        with k.cond:
            t0 = real_time.monotonic()
            while True:
                if self.closed:
                    raise OSError(errno.EBADF, "Bad file descriptor")
                if c.inbuf:
                    d, c.inbuf = c.inbuf[:n], c.inbuf[n:]
                    c.read_unanswered += len(d)
                    return d
                if c.peer_closed:
                    return b""
                if not self.blocking:
                    raise BlockingIOError(errno.EAGAIN, "no data")
                if k.tstates.get(threading.get_ident()) != "blocked-recv":
                    k.thread_state(threading.get_ident(), "blocked-recv")
                    k.cond.notify_all()
                k.cond.wait(0.5)
                if c.inbuf or c.peer_closed or self.closed:
                    k.thread_state(threading.get_ident(), "running")
                if real_time.monotonic() - t0 > k.watchdog:
                    k.hang = "handler blocked in recv for %.0f s of real time" % k.watchdog
                    raise OSError(errno.ETIMEDOUT, "harness watchdog")

    def send(self, data):
        self.sendall(data)
        return len(data)

    def sendall(self, data):
        with self.k.cond:
            if self.closed:
                raise OSError(errno.EBADF, "Bad file descriptor")
            if self.conn.peer_closed:
                raise BrokenPipeError(errno.EPIPE, "Broken pipe")
            self.conn.sent += bytes(data)
            self.conn.read_unanswered = 0

    def shutdown(self, how):
        pass

    def close(self):
        k = self.k
        with k.cond:
            if self.closed:
                return
            self.closed = True
            c = self.conn
            c.closed_at = k.now
            c.parked_seq = None
            c.closed_by = threading.get_ident()
            if c.running is not None and c.running != threading.get_ident():
                c.close_under_handler = True
            if c.idle_since is not None and not c.inbuf and not c.peer_closed and k.worker is not None and k.worker.alive:
                c.early_close = k.now - c.idle_since
            if c.queued_dispatch and not c.peer_closed and (c.inbuf or c.read_unanswered) and not k.hang:
                # its request had been handed to the thread pool; the connection is closed before any handler looked at it
                k.violate("dispatched-request-dropped-before-handling",
                          "connection %d: its request was queued for a handler thread and the connection was closed before a handler "
                          "ran (worker %s)" % (c.cid, "running" if k.worker is not None and k.worker.alive else "leaving its loop"))
            if c.read_unanswered and not c.peer_closed and k.worker is not None and k.worker.alive and not k.hang:
                # the worker took bytes of a request from a client that is still connected and then closed the connection
                # without writing anything back
                k.violate("request-read-then-connection-closed-unanswered",
                          "connection %d: %d request bytes were read, nothing was answered, the client is connected and the worker "
                          "is not stopping - closed by the %s" % (c.cid, c.read_unanswered,
                                                                  "loop" if threading.get_ident() == k.loop_thread else "handler thread"))
            if c.repark_behind and c.idle_since is not None and threading.get_ident() == k.loop_thread and k.worker is not None \
                    and k.worker.alive:
                k.count("reparked_behind_older_idle_then_reaped")
            k.log.append((k.now, "close", c.cid, "loop" if threading.get_ident() == k.loop_thread else "pool"))
            k.cond.notify_all()


class ScriptedListener:
    def __init__(self, k, idx):
        self.k = k
        self.idx = idx
        self.pending = []
        self.phantom = 0        # times the listener looks readable although another process has taken the connection
        self.closed = False

    def fileno(self):
        return 900 + self.idx

    def getsockname(self):
        return ("127.0.0.1", 8000 + self.idx)

    def setblocking(self, v):
        pass

    def accept(self):
        k = self.k
        with k.cond:
            if not self.pending:
                if self.phantom:
                    self.phantom -= 1
                    k.count("accept_eagain_after_readable")
                raise BlockingIOError(errno.EAGAIN, "nothing to accept")
            cid = self.pending.pop(0)
            s = ScriptedSocket(k, cid, self.idx)
            c = s.conn
            cl = k.clients[cid]
            c.inbuf = cl["unsent_to_server"]
            cl["unsent_to_server"] = b""
            c.peer_closed = cl["closed"]
            if c.inbuf:
                c.data_arrived_iter = k.iterations
            k.conns[cid] = c
            nopen = sum(1 for x in k.conns.values() if x.closed_at is None)
            k.max_open = max(k.max_open, nopen)
            k.log.append((k.now, "accept", cid, "open=%d" % nopen))
            if nopen > k.worker_connections:
                k.violate("capacity-exceeded" + ("/two-listeners-one-check" if k.nlisteners > 1 and k.accepts_this_iter >= 1 else ""),
                          "%d connections open after accept, worker_connections=%d" % (nopen, k.worker_connections))
            k.accepts_this_iter += 1
            return s, s.getpeername()

    def close(self):
        self.closed = True


class ScriptedSelector:
    def __init__(self, k):
        self.k = k
        self.map = {}
        self.closed = False

    def register(self, fileobj, events, data=None):
        with self.k.cond:
            if fileobj in self.map:
                raise KeyError("already registered")
            if getattr(fileobj, "closed", False):
                raise ValueError("closed socket")
            self.map[fileobj] = data
            if isinstance(fileobj, ScriptedSocket):
                fileobj.conn.registered = True
                self.k.log.append((self.k.now, "register", fileobj.cid))
                if fileobj.conn.idle_since is not None:
                    self.k.seq += 1
                    fileobj.conn.parked_seq = self.k.seq
                    fileobj.conn.parks += 1
                    if fileobj.conn.busy_behind:
                        # idle -> busy while queued behind an older idle connection -> idle again
                        fileobj.conn.busy_behind = False
                        fileobj.conn.repark_behind = True
                        self.k.count("reparked_behind_older_idle")
                    else:
                        fileobj.conn.repark_behind = False

    def unregister(self, fileobj):
        with self.k.cond:
            if fileobj not in self.map:
                raise KeyError("not registered")
            del self.map[fileobj]
            if isinstance(fileobj, ScriptedSocket):
                fileobj.conn.registered = False

    def select(self, timeout=None):
        return self.k.loop_select(self, timeout)

    def close(self):
        self.closed = True
        if self.k.log_selects:
            self.k.log.append((self.k.now, "poller-closed"))

    def get_map(self):
        return self.map


class _Key:
    def __init__(self, fileobj, data):
        self.fileobj = fileobj
        self.data = data


class ControlledExecutor:
    """max_workers real threads; the kernel knows for each whether it is idle, running or blocked in recv."""

    def __init__(self, max_workers=1, **kw):
        self.k = ControlledExecutor.kernel
        self.q = queue.Queue()
        self.threads = []
        self.shut = False
        for i in range(max_workers):
            t = threading.Thread(target=self._work, daemon=True)
            t.start()
            self.threads.append(t)
        self.k.executor = self

    def submit(self, fn, *args):
        if self.shut:
            raise RuntimeError("cannot schedule new futures after shutdown")
        f = real_futures.Future()
        with self.k.cond:
            self.k.queued += 1
            if args and hasattr(args[0], "sock") and isinstance(args[0].sock, ScriptedSocket):
                c = args[0].sock.conn
                c.dispatched_at_iter = self.k.iterations
                if c.parked_seq is not None:
                    # an idle keep-alive connection becomes busy again: is an older idle connection, whose keep-alive time has
                    # not run out, parked in front of it?
                    c.busy_behind = any(o is not c and o.closed_at is None and o.parked_seq is not None and o.parked_seq < c.parked_seq
                                        and o.idle_since is not None and o.idle_since + self.k.keepalive > self.k.now
                                        for o in self.k.conns.values())
                c.idle_since = None         # dispatched: no longer an idle keep-alive connection
                c.parked_seq = None
                c.queued_dispatch = True
                c.polls_ready = 0
                c.waits_ready = 0
                c.waits_below = 0
                self.k.log.append((self.k.now, "dispatch", c.cid))
        self.q.put((f, fn, args))
        return f

    def _work(self):
        k = self.k
        me = threading.get_ident()
        with k.cond:
            k.thread_state(me, "idle")
        while True:
            item = self.q.get()
            if item is None:
                return
            f, fn, args = item
            conn = None
            with k.cond:
                k.queued -= 1
                k.thread_state(me, "running")
                if args and hasattr(args[0], "sock") and isinstance(args[0].sock, ScriptedSocket):
                    conn = args[0].sock.conn
                    conn.running = me
                    conn.idle_since = None
                    conn.queued_dispatch = False
                    k.seq += 1
                    conn.started_seq = k.seq
            if not f.set_running_or_notify_cancel():
                with k.cond:
                    k.thread_state(me, "idle")
                    k.cond.notify_all()
                continue
            try:
                res = fn(*args)
            except BaseException as e:      # noqa: BLE001
                with k.cond:
                    if conn is not None:
                        conn.running = None
                        conn.handled += 1
                f.set_exception(e)
            else:
                with k.cond:
                    if conn is not None:
                        conn.handled += 1
                        k.after_handler(conn, res)
                f.set_result(res)           # runs finish_request in this thread
                with k.cond:
                    if conn is not None:
                        conn.running = None
            with k.cond:
                k.thread_state(me, "idle")
                k.cond.notify_all()

    def shutdown(self, wait=True, cancel_futures=False, **kw):
        self.shut = True
        if cancel_futures:
            # what concurrent.futures does: work that has not started is taken off the queue and its future cancelled
            while True:
                try:
                    item = self.q.get_nowait()
                except queue.Empty:
                    break
                if item is None:
                    continue
                f, fn, args = item
                with self.k.cond:
                    self.k.queued -= 1
                    self.k.count("queued_work_cancelled_at_shutdown")
                f.cancel()
                f.set_running_or_notify_cancel()
        for _ in self.threads:
            self.q.put(None)


class SchedLock:
    """The worker's own RLock, wrapped: when `lock_delay` is on, a pool thread that is about to acquire it may be held back
    until the loop thread has gone through one more select() - a schedule the OS could produce on its own. This lets the
    loop run between two steps of finish_request() that are not under the lock."""

    def __init__(self, k):
        self.k = k
        self.real = threading.RLock()

    def __enter__(self):
        k = self.k
        me = threading.get_ident()
        if k.lock_delay and me != k.loop_thread and k.worker is not None and k.worker.alive:
            with k.cond:
                k.lock_acq += 1
                if k.lock_rng.random() < k.lock_delay:
                    start = k.iterations
                    k.lock_wait[me] = start
                    k.thread_state(me, "blocked-lock")
                    k.cond.notify_all()
                    t0 = real_time.monotonic()
                    while k.iterations <= start and k.worker.alive and real_time.monotonic() - t0 < k.watchdog / 2:
                        k.cond.wait(0.2)
                    k.lock_wait.pop(me, None)
                    k.thread_state(me, "running")
                    k.count("pool_thread_lock_delays")
        self.real.acquire()
        return self

    def __exit__(self, *a):
        self.real.release()

    def acquire(self, *a, **kw):
        return self.real.acquire(*a, **kw)

    def release(self):
        return self.real.release()


class FuturesFacade:
    FIRST_COMPLETED = real_futures.FIRST_COMPLETED
    ALL_COMPLETED = real_futures.ALL_COMPLETED
    ThreadPoolExecutor = ControlledExecutor
    Future = real_futures.Future

    def __init__(self, k):
        self.k = k

    def wait(self, fs, timeout=None, return_when=real_futures.ALL_COMPLETED):
        return self.k.loop_wait(fs, timeout, return_when)


class SelectorsFacade:
    EVENT_READ = EVENT_READ
    EVENT_WRITE = 2

    def __init__(self, k):
        self.k = k

    def DefaultSelector(self):
        s = ScriptedSelector(self.k)
        self.k.selector = s
        return s


class TimeFacade:
    def __init__(self, k):
        self.k = k

    def time(self):
        return self.k.now

    def monotonic(self):
        return self.k.now

    def sleep(self, d):
        k = self.k
        k.now += d
        if threading.get_ident() != k.loop_thread:
            return
        # the loop itself sleeps instead of polling or waiting for a handler: an iteration like any other (budget, invariants);
        # the environment moves on meanwhile
        with k.cond:
            k.tick()
            k.sleeps = getattr(k, "sleeps", 0) + 1
            step = k.next_step()
            while step is not None and step[0] != "time":
                k.apply_step(step)
                step = k.next_step()
            k.check_invariants("wait")
            late = [c.cid for c in k.conns.values() if c.closed_at is None and c.idle_since is not None and c.running is None
                    and k.now - (c.idle_since + k.keepalive) > 3.5]
            if late and k.worker is not None and k.worker.alive:
                k.violate("keepalive-not-reaped/loop-sleeping", "idle keep-alive connections %s are still open %.1f s after their deadline; "
                          "the loop sleeps without polling or reaping" % (late, max(k.now - (k.conns[c].idle_since + k.keepalive) for c in late)))
                raise Budget("sleep")


REQ_KA = b"GET /ka HTTP/1.1\r\nHost: h\r\n\r\n"
REQ_CLOSE = b"GET /cl HTTP/1.1\r\nHost: h\r\nConnection: close\r\n\r\n"
REQ_GATED = b"GET /gate HTTP/1.1\r\nHost: h\r\n\r\n"
REQ_BAD = b"GET / HTTP/9.9\r\n\r\n"
REQ_BOOM = b"GET /boom HTTP/1.1\r\nHost: h\r\n\r\n"        # the application fails after part of its response has gone out


class Kernel:
    def __init__(self, cfgset, history, nlisteners=1, budget=600, watchdog=8.0):
        self.cfgset = cfgset
        self.history = list(history)
        self.hpos = 0
        self.nlisteners = nlisteners
        self.now = 5000.0
        self.cond = threading.Condition(threading.RLock())
        self.conns = {}
        self.clients = {}
        self.log = []
        self.violations = []
        self.iterations = 0
        self.selects = 0
        self.waits = 0
        self.spin = 0
        self.budget = budget
        self.watchdog = watchdog
        self.tstates = {}
        self.queued = 0
        self.executor = None
        self.selector = None
        self.worker = None
        self.listeners = [ScriptedListener(self, i) for i in range(nlisteners)]
        self.loop_thread = threading.get_ident()
        self.max_open = 0
        self.accepts_this_iter = 0
        self.hang = None
        self.released = set()
        self.gate_wait = {}
        self.lock_delay = cfgset.get("_lock_delay", 0.0)
        self.lock_rng = __import__("random").Random(cfgset.get("_lock_seed", 0))
        self.lock_wait = {}
        self.lock_acq = 0
        self.phase = "history"
        self.drain_ticks = 0
        self.stop_requested_at = None
        self.worker_connections = cfgset.get("worker_connections", 1000)
        # opt-in (cfgset "_log_selects"): every select() result that names accepted connections is written to the log as
        # (now, "select-returned", [(cid, unread request bytes, client still connected)], worker.alive), and the closing of the
        # poller as (now, "poller-closed"): lets a check see whether an event the loop was handed was acted upon
        self.log_selects = bool(cfgset.get("_log_selects", False))
        self.seq = 0
        self.keepalive = cfgset.get("keepalive", 2)
        self.threads = cfgset.get("threads", 1)
        self.last_poll_iter = 0
        self.reach = {}

    # ---- helpers -----------------------------------------------------------------------------
    def count(self, key, n=1):
        self.reach[key] = self.reach.get(key, 0) + n

    def violate(self, mech, summary):
        if not any(m == mech for m, _ in self.violations):
            self.violations.append((mech, summary))

    def thread_state(self, ident, state):
        self.tstates[ident] = state

    def quiescent(self):
        states = list(self.tstates.values())
        if self.executor is not None and len(states) < len(self.executor.threads):
            return False            # a pool thread has not reported in yet
        # work may stay queued only while no thread is free to take it
        if any(cid in self.released for cid in self.gate_wait.values()):
            return False            # a released handler has not woken up yet
        if any(self.iterations > start for start in self.lock_wait.values()):
            return False            # a pool thread held back at the lock is due to continue
        return (self.queued == 0 or "idle" not in states) and all(s in ("idle", "blocked-recv", "blocked-gate", "blocked-lock") for s in states) and \
            all(not (c.running is not None and self.tstates.get(c.running) == "blocked-recv" and (c.inbuf or c.peer_closed))
                for c in self.conns.values() if c.closed_at is None)

    def wait_quiescent(self):
        """Let pool threads run until every one is idle or blocked waiting for bytes that are not there."""
        t0 = real_time.monotonic()
        with self.cond:
            while not self.quiescent():
                self.cond.wait(0.05)
                if real_time.monotonic() - t0 > self.watchdog:
                    self.hang = "pool threads did not settle within %.0f s of real time" % self.watchdog
                    raise Budget("watchdog")

    def after_handler(self, conn, res):
        """Called (under the lock) in the pool thread when handle() returned, before finish_request runs."""
        keepalive = bool(res[0]) if isinstance(res, tuple) else False
        conn.last_keepalive = keepalive
        conn.responses_done = conn.sent.count(b"HTTP/1.1 ")
        if keepalive:
            conn.idle_since = self.now
            self.count("handler_finished_keepalive")
            # the share of the slots that idle keep-alive connections may hold is worker_connections - threads: connections that
            # were parked before this handler even started, and still are, were all counted when it decided to keep its own alive
            lim = self.worker_connections - self.threads
            # (not counted: parked connections the loop may be taking out of the keep-alive queue at this very moment - those whose
            # keep-alive time is over, which it reaps, and those with an event pending, which it dispatches; between the loop's
            # removal from the queue and the close / dispatch this thread would still see them as parked)
            parked = [c.cid for c in self.conns.values() if c is not conn and c.closed_at is None and c.parked_seq is not None
                      and conn.started_seq is not None and c.parked_seq < conn.started_seq
                      and c.idle_since is not None and c.idle_since + self.keepalive > self.now and not c.inbuf and not c.peer_closed]
            if len(parked) >= max(lim, 0) and self.worker is not None and self.worker.alive:
                self.violate("keepalive-granted-beyond-the-idle-share",
                             "connection %d was kept alive although %d idle keep-alive connections %s were already parked when its "
                             "handler started (worker_connections %d - threads %d = %d)" % (
                                 conn.cid, len(parked), parked, self.worker_connections, self.threads, lim))
            self.count("keepalive_grant_checks")
        else:
            self.count("handler_finished_close")

    def app(self, environ, start_response):
        if environ.get("PATH_INFO") == "/gate":
            cid = int(environ["REMOTE_PORT"]) - 5000
            with self.cond:
                self.gate_wait[threading.get_ident()] = cid
                self.thread_state(threading.get_ident(), "blocked-gate")
                self.cond.notify_all()
                t0 = real_time.monotonic()
                while cid not in self.released:
                    self.cond.wait(0.5)
                    if real_time.monotonic() - t0 > self.watchdog:
                        break
                self.gate_wait.pop(threading.get_ident(), None)
                self.thread_state(threading.get_ident(), "running")
        if environ.get("PATH_INFO") == "/boom":
            def failing():
                yield b"part"
                raise RuntimeError("scripted application failure after output")
            start_response("200 OK", [("Content-Length", "10")])
            return failing()
        start_response("200 OK", [("Content-Length", "2")])
        return [b"ok"]

    # ---- the environment -----------------------------------------------------------------------
    def client(self, cid):
        return self.clients.setdefault(cid, {"connected": False, "closed": False, "unsent_to_server": b"", "listener": 0})

    def deliver(self, cid, data):
        cl = self.client(cid)
        c = self.conns.get(cid)
        if c is not None and c.closed_at is None:
            c.inbuf += data
            c.data_arrived_iter = self.iterations
        elif c is None:
            cl["unsent_to_server"] += data

    def apply_step(self, step):
        kind = step[0]
        self.log.append((self.now, "step", step))
        if kind == "connect":
            cid = step[1]
            cl = self.client(cid)
            if not cl["connected"]:
                cl["connected"] = True
                cl["listener"] = step[2] if len(step) > 2 else 0
                self.listeners[cl["listener"] % self.nlisteners].pending.append(cid)
        elif kind == "send":
            cid, what = step[1], step[2]
            cl = self.client(cid)
            if not cl["connected"] or cl["closed"]:
                return
            data = {"ka": REQ_KA, "close": REQ_CLOSE, "gated": REQ_GATED, "bad": REQ_BAD, "boom": REQ_BOOM,
                    "half": REQ_KA[:11], "rest": REQ_KA[11:]}[what]
            self.deliver(cid, data)
        elif kind == "release":
            self.released.add(step[1])
        elif kind == "phantom":
            # a sibling worker accepts the connection first: the listener is reported readable, accept() then finds nothing
            self.listeners[step[1] % self.nlisteners].phantom += 1
        elif kind == "disconnect":
            cid = step[1]
            cl = self.client(cid)
            cl["closed"] = True
            c = self.conns.get(cid)
            if c is not None:
                c.peer_closed = True
        elif kind == "time":
            pass
        elif kind == "stop":
            if self.worker is not None and self.worker.alive:
                self.worker.alive = False
                self.stop_requested_at = self.now
        self.cond.notify_all()

    def ready_keys(self, sel):
        out = []
        for fo, data in list(sel.map.items()):
            if isinstance(fo, ScriptedListener):
                if fo.pending or fo.phantom:
                    out.append((_Key(fo, data), EVENT_READ))
            elif isinstance(fo, ScriptedSocket):
                c = fo.conn
                if not fo.closed and (c.inbuf or c.peer_closed):
                    out.append((_Key(fo, data), EVENT_READ))
        return out

    # ---- the two blocking points of the loop -------------------------------------------------------
    def tick(self):
        self.iterations += 1
        self.cond.notify_all()
        self.accepts_this_iter = 0
        if self.iterations > self.budget:
            raise Budget("iterations")

    def loop_select(self, sel, timeout):
        self.wait_quiescent()
        with self.cond:
            self.tick()
            self.selects += 1
            self.cond.notify_all()
            self.spin = 0
            self.last_poll_iter = self.iterations
            self.check_invariants("select")
            ready = self.ready_keys(sel)
            if ready:
                return self._handed(ready)
            waited = 0.0
            limit = timeout if timeout is not None else 1.0
            while waited < limit - 1e-9:
                step = self.next_step()
                if step is None:
                    self.now += limit - waited
                    break
                if step[0] == "time":
                    dt = min(step[1], limit - waited)
                    self.now += dt
                    waited += dt
                    if step[1] - dt > 1e-9:
                        self.history.insert(self.hpos, ("time", round(step[1] - dt, 6)))
                    continue
                self.apply_step(step)
                if step[0] == "stop":
                    break
                ready = self.ready_keys(sel)
                if ready:
                    break
            # handlers may have been unblocked by the step
        self.wait_quiescent()
        with self.cond:
            return self._handed(self.ready_keys(sel))

    def _handed(self, ready):
        if self.keepalive and self.worker is not None and self.worker.alive:
            # scheduling class: an event on an idle keep-alive connection is handed to the loop in the very select() round in
            # which that connection's keep-alive time is already over (the reaper has not looked at it yet)
            for key, _ in ready:
                fo = key.fileobj
                if isinstance(fo, ScriptedSocket) and not fo.closed:
                    c = fo.conn
                    if c.idle_since is not None and c.running is None and c.parked_seq is not None and \
                            self.now >= c.idle_since + self.keepalive:
                        self.count("event_on_idle_connection_past_keepalive_time")
                        self.count("event_on_idle_connection_past_keepalive_time/" + ("bytes" if c.inbuf else "disconnect"))
        if self.log_selects:
            socks = [(key.fileobj.cid, len(key.fileobj.conn.inbuf), not key.fileobj.conn.peer_closed)
                     for key, _ in ready if isinstance(key.fileobj, ScriptedSocket)]
            if socks:
                self.log.append((self.now, "select-returned", socks, bool(self.worker is not None and self.worker.alive)))
        return ready

    def loop_wait(self, fs, timeout, return_when):
        fs = list(fs)
        if not timeout:
            return real_futures.wait(fs, timeout=0, return_when=return_when)
        if self.worker is not None and not self.worker.alive:
            # final wait after the loop: let released handlers finish (graceful wait)
            with self.cond:
                for cid in list(self.conns):
                    self.released.add(cid)
                self.cond.notify_all()
            self.wait_quiescent()
            self.now += timeout      # handlers still blocked on their clients get the graceful timeout, in virtual time
            return real_futures.wait(fs, timeout=0, return_when=return_when)
        self.wait_quiescent()
        with self.cond:
            self.tick()
            self.waits += 1
            self.check_invariants("wait")
            done = [f for f in fs if f.done()]
            if not fs or done:
                # returns at once: the loop is spinning without polling; account a little CPU time
                self.now += 0.001
                self.spin += 1
                if self.spin > 60:
                    pend = [c.cid for c in self.conns.values() if c.closed_at is None and c.registered and (c.inbuf or c.peer_closed)]
                    nopen = self.open_count()
                    self.violate("loop-stopped-polling-at-capacity" if nopen >= self.worker_connections else "loop-stopped-polling-below-capacity",
                                 "the loop has not called select() for %d iterations: %d connections open, worker_connections = %d, "
                                 "no handler in flight; registered connections with unread events: %s" % (
                                     self.spin, nopen, self.worker_connections, pend))
                    raise Budget("spin")
                return real_futures.wait(fs, timeout=0, return_when=return_when)
            # something is in flight: environment steps until a future completes or the timeout passes
            waited = 0.0
            while waited < timeout - 1e-9:
                step = self.next_step()
                if step is None:
                    self.now += timeout - waited
                    break
                if step[0] == "time":
                    dt = min(step[1], timeout - waited)
                    self.now += dt
                    waited += dt
                    if step[1] - dt > 1e-9:
                        self.history.insert(self.hpos, ("time", round(step[1] - dt, 6)))
                    continue
                self.apply_step(step)
                self.cond.release()
                try:
                    self.wait_quiescent()
                finally:
                    self.cond.acquire()
                if any(f.done() for f in fs) or step[0] == "stop":
                    break
        self.wait_quiescent()
        return real_futures.wait(fs, timeout=0, return_when=return_when)

    def next_step(self):
        if self.hpos < len(self.history):
            s = self.history[self.hpos]
            self.hpos += 1
            return tuple(s)
        # drain: release handlers, every client leaves, time passes, then stop
        if self.phase == "history":
            self.phase = "drain"
            self.drain = []
            for cid in sorted(self.clients):
                self.drain.append(("release", cid))
            for cid in sorted(self.clients):
                if not self.clients[cid]["closed"]:
                    self.drain.append(("disconnect", cid))
            for _ in range(int(self.keepalive) + 4):
                self.drain.append(("time", 1.0))
            self.drain.append(("check-empty",))
            self.drain.append(("stop",))
        while self.drain:
            s = self.drain.pop(0)
            if s[0] == "check-empty":
                self.check_empty()
                continue
            return s
        return None

    # ---- invariants ------------------------------------------------------------------------------------
    def check_invariants(self, where):
        w = self.worker
        alive = w is not None and w.alive
        running = sum(1 for c in self.conns.values() if c.running is not None)
        for c in self.conns.values():
            if c.close_under_handler:
                self.violate("closed-under-running-request", "connection %d was closed by another thread while its handler "
                             "was running" % c.cid)
            if c.closed_at is not None:
                if c.early_close is not None and c.early_close < self.keepalive - 1e-6:
                    self.violate("keepalive-closed-early", "idle keep-alive connection %d closed %.2f s after its response, "
                                 "keepalive=%s, client silent and connected" % (c.cid, c.early_close, self.keepalive))
                continue
            if c.running is None and not c.registered and self.queued == 0 and alive and c.dispatched_at_iter != self.iterations:
                # neither handled, nor queued, nor watched: it can never be served or reaped again
                self.violate("orphaned-connection", "connection %d is open but neither running nor registered with the poller" % c.cid)
            if c.idle_since is not None and alive and c.running is None:
                over = self.now - (c.idle_since + self.keepalive)
                if over > 2.5 and self.iterations - self.last_poll_iter < 3:
                    self.violate("keepalive-not-reaped", "idle keep-alive connection %d still open %.1f s after its deadline" % (c.cid, over))
            if alive and c.registered and c.running is None and (c.inbuf or c.peer_closed):
                idle_thread = "idle" in self.tstates.values() and self.queued == 0
                if where == "select":
                    c.polls_ready += 1
                    if c.polls_ready > 3 and idle_thread:
                        self.violate("ready-connection-not-served", "connection %d was readable at %d consecutive select() calls "
                                     "and was not dispatched although a handler thread is free" % (c.cid, c.polls_ready))
                else:
                    c.waits_ready += 1
                    nopen = self.open_count()
                    if nopen < self.worker_connections:
                        # (the loop decided not to poll before this point was reached: a handler that finished in between has
                        # closed its connection since - one such iteration says nothing; "below capacity" is when it goes on)
                        c.waits_below += 1
                    if c.waits_ready > 3 and idle_thread:
                        self.violate("ready-connection-not-served/at-capacity" if c.waits_below <= 3
                                     else "ready-connection-not-served/below-capacity",
                                     "connection %d has had unread request bytes for %d loop iterations in which the loop did not "
                                     "poll (open connections = %d, worker_connections = %d) although a handler thread is free" % (
                                         c.cid, c.waits_ready, nopen, self.worker_connections))
        # idle keep-alive connections may hold worker_connections - threads of the slots; handlers that finish at the same moment
        # can overshoot that by threads - 1 (each looked at the count before the other parked its connection: counted, not judged),
        # but idle keep-alive connections can never hold EVERY slot - that would be a full house with nothing to do, for good
        if alive and self.queued == 0 and all(st != "running" for st in self.tstates.values()):
            idle = [c.cid for c in self.conns.values() if c.closed_at is None and c.idle_since is not None and c.running is None
                    and c.registered and not c.inbuf and not c.peer_closed]
            lim = max(0, self.worker_connections - self.threads)
            if len(idle) > lim:
                self.count("info_keepalive_share_overshoot")
            if idle and len(idle) >= self.worker_connections:
                self.violate("every-connection-slot-held-by-idle-keepalive",
                             "%d idle keep-alive connections %s are parked, worker_connections = %d, threads = %d: no slot is left "
                             "for a connection that has work" % (len(idle), idle, self.worker_connections, self.threads))
            self.count("keepalive_share_checks")
        # auxiliary agreement with the worker's own bookkeeping
        if w is not None and self.queued == 0 and all(s != "running" for s in self.tstates.values()):
            nopen = self.open_count()
            nr = getattr(w, "nr_conns", nopen)
            if nr != nopen:
                self.count("aux_nr_conns_disagrees")
                self.aux = "nr_conns=%s, open=%d" % (getattr(w, "nr_conns", None), nopen)
                # the worker's own count is what it compares with worker_connections before it accepts: a count that is too low
                # lets it hold more than worker_connections later, one that is too high takes slots away for good
                held = sorted(c.cid for c in self.conns.values() if c.closed_at is None)
                self.violate("open-connection-count-below-zero" if nr < 0 else
                             "open-connection-count-lower-than-connections-held" if nr < nopen else
                             "open-connection-count-higher-than-connections-held",
                             "the worker counts %s open connections (nr_conns) and really holds %d %s at a point where no handler "
                             "thread is running (worker_connections = %d)" % (nr, nopen, held, self.worker_connections))
            else:
                self.count("aux_nr_conns_agrees")

    def open_count(self):
        return sum(1 for c in self.conns.values() if c.closed_at is None)

    def check_empty(self):
        """All clients left and every keep-alive deadline passed (before any stop request)."""
        left = [c.cid for c in self.conns.values() if c.closed_at is None]
        self.count("drain_checks")
        if left and self.worker is not None and self.worker.alive:
            self.violate("connections-left-open-after-clients-left",
                         "connections %s still open %d s after every client disconnected" % (left, int(self.keepalive) + 4))
        w = self.worker
        if not left and w is not None and w.alive and self.queued == 0 and all(s != "running" for s in self.tstates.values()):
            self.count("drain_count_checks")
            if getattr(w, "nr_conns", 0) != 0:
                self.violate("open-connection-count-not-zero-after-clients-left",
                             "every client has left and every connection is closed, the worker's count of open connections (nr_conns) "
                             "is %s" % w.nr_conns)


def run_history(cfgset, history, nlisteners=1, budget=600):
    """Run the real ThreadWorker.run() through one history. Returns the kernel."""
    k = Kernel(cfgset, history, nlisteners, budget)
    cfg = Config()
    base = {"errorlog": "/dev/null", "loglevel": "critical", "worker_class": "gthread", "graceful_timeout": 2}
    base.update({a: b for a, b in cfgset.items() if not a.startswith("_")})
    for name, v in base.items():
        cfg.set(name, v)
    log = glogging.Logger(cfg)
    saved = {n: getattr(gt, n) for n in ("selectors", "futures", "time")}
    ControlledExecutor.kernel = k
    w = None
    try:
        gt.selectors = SelectorsFacade(k)
        gt.futures = FuturesFacade(k)
        gt.time = TimeFacade(k)
        w = gt.ThreadWorker(1, os.getppid(), list(k.listeners), None, 30, cfg, log)
        k.worker = w
        w.wsgi = k.app
        # what init_process() does before run()
        w.tpool = w.get_thread_pool()
        w.poller = gt.selectors.DefaultSelector()
        w._lock = SchedLock(k)
        try:
            w.run()
            k.end = "returned"
        except Budget as e:
            k.end = "budget:%s" % e
        except BaseException as e:      # noqa: BLE001
            k.end = "exception:%s:%s" % (type(e).__name__, e)
    finally:
        for n, v in saved.items():
            setattr(gt, n, v)
        if w is not None:
            w.alive = False
            with k.cond:
                for c in k.conns.values():
                    c.peer_closed = True
                for cid in list(k.clients):
                    k.released.add(cid)
                k.cond.notify_all()
            if k.executor is not None:
                k.executor.shutdown(False)
            try:
                w.tmp.close()
            except Exception:
                pass
    return k
