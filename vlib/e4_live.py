"""Engine E4: real gunicorn master + workers, observed from outside.

The harness process becomes a child subreaper (PID 1 of this sandbox never reaps), starts
`python -m gunicorn` from /repo's working tree in its own session with a generated config file whose
server hooks append events to a log, and observes: /proc (process table, states, ids, fds), the
event log, gunicorn's stderr, client sockets (every operation classified), files on disk, exit
statuses.  Phases of the test application are reported through a phase log and gated by release
files, so that "signal while the application is running" is a state the harness establishes.
"""
import ctypes
import errno
import json
import os
import shutil
import signal
import socket
import subprocess
import threading
import time

from vlib import common

PR_SET_CHILD_SUBREAPER = 36
_subreaper = False


def become_subreaper():
    global _subreaper
    if not _subreaper:
        libc = ctypes.CDLL(None, use_errno=True)
        if libc.prctl(PR_SET_CHILD_SUBREAPER, 1, 0, 0, 0) != 0:
            raise OSError(ctypes.get_errno(), "prctl(PR_SET_CHILD_SUBREAPER)")
        _subreaper = True


class LagProbe(threading.Thread):
    """Measures how late a 50 ms sleep wakes up: scheduling lag of this machine right now."""

    def __init__(self):
        super().__init__(daemon=True)
        self.samples = []
        self.stop_flag = False

    def run(self):
        while not self.stop_flag:
            t = time.monotonic()
            time.sleep(0.05)
            self.samples.append((time.monotonic(), time.monotonic() - t - 0.05))
            if len(self.samples) > 4000:
                del self.samples[:2000]

    def max_lag(self, since=None):
        xs = [lag for (t, lag) in self.samples if since is None or t >= since]
        return max(xs) if xs else 0.0


def proc_table():
    """{pid: (ppid, state, comm)} from /proc."""
    out = {}
    for d in os.listdir("/proc"):
        if not d.isdigit():
            continue
        try:
            with open("/proc/%s/stat" % d, "rb") as f:
                s = f.read().decode("latin-1")
        except OSError:
            continue
        r = s.rfind(")")
        comm = s[s.find("(") + 1:r]
        rest = s[r + 2:].split()
        out[int(d)] = (int(rest[1]), rest[0], comm)
    return out


def alive(pid):
    try:
        with open("/proc/%d/stat" % pid, "rb") as f:
            s = f.read().decode("latin-1")
        return s[s.rfind(")") + 2] not in ("Z", "X")
    except OSError:
        return False


def start_ticks(pid):
    """starttime field of /proc/<pid>/stat (clock ticks since boot), None if there is no such process: tells a process from a
    later, unrelated one that was given the same pid (on a busy machine the pid space wraps within seconds)."""
    try:
        with open("/proc/%d/stat" % pid, "rb") as f:
            s = f.read().decode("latin-1")
        return int(s[s.rfind(")") + 2:].split()[19])
    except (OSError, ValueError, IndexError):
        return None


def proc_ids(pid):
    """Uid/Gid/Groups lines of /proc/<pid>/status as lists of ints."""
    out = {}
    try:
        with open("/proc/%d/status" % pid) as f:
            for line in f:
                if line.startswith(("Uid:", "Gid:", "Groups:")):
                    k, _, v = line.partition(":")
                    out[k] = [int(x) for x in v.split()]
    except OSError:
        return None
    return out


def have_ipv6():
    try:
        s = socket.socket(socket.AF_INET6, socket.SOCK_STREAM)
        try:
            s.bind(("::1", 0))
        finally:
            s.close()
        return True
    except OSError:
        return False


def free_port():
    s = socket.socket()
    s.bind(("127.0.0.1", 0))
    p = s.getsockname()[1]
    s.close()
    return p


APP_SOURCE = r'''
import os, sys, time, signal, json
IMPORT_IDS = {"ruid": os.getresuid(), "rgid": os.getresgid(), "groups": sorted(os.getgroups()), "pid": os.getpid()}
START = time.time()
HERE = os.path.dirname(os.path.abspath(__file__))

def _phase(msg):
    with open(os.path.join(HERE, "phases.log"), "a") as f:
        f.write("%.6f %d %s\n" % (time.monotonic(), os.getpid(), msg))

def _wait_release(name, maxwait):
    t0 = time.monotonic()
    path = os.path.join(HERE, "release-" + name)
    while time.monotonic() - t0 < maxwait:
        if os.path.exists(path):
            try:
                return float(open(path).read().strip() or 0)
            except Exception:
                return 0.0
        time.sleep(0.01)
    return None

def app(environ, start_response):
    path = environ.get("PATH_INFO", "/")
    parts = path.strip("/").split("/")
    kind = parts[0] if parts and parts[0] else "pid"
    arg = parts[1] if len(parts) > 1 else ""
    pid = os.getpid()
    def reply(body, status="200 OK", extra=()):
        if isinstance(body, str):
            body = body.encode()
        body = body + b"|END"
        start_response(status, [("Content-Type", "text/plain"), ("Content-Length", str(len(body)))] + list(extra))
        return [body]
    if kind == "pid":
        return reply("pid=%d gen=%s start=%.3f" % (pid, os.environ.get("GEN", "-"), START))
    if kind == "sleep":
        time.sleep(float(arg))
        return reply("pid=%d gen=%s slept=%s" % (pid, os.environ.get("GEN", "-"), arg))
    if kind == "nap":
        # /nap/<seconds>/<tag>: like /sleep, but the phase log proves that the application was entered for this very request
        _phase("nap " + (parts[2] if len(parts) > 2 else ""))
        time.sleep(float(arg))
        return reply("pid=%d gen=%s nap=%s" % (pid, os.environ.get("GEN", "-"), arg))
    if kind == "gate":
        _phase("entered " + arg)
        d = _wait_release(arg, 60.0)
        if d:
            time.sleep(d)
        return reply("pid=%d done=%s" % (pid, arg))
    if kind == "stream":
        tail = ("pid=%d done=%s|END" % (pid, arg)).encode()
        first = b"first-chunk;"
        start_response("200 OK", [("Content-Type", "text/plain"), ("Content-Length", str(len(first) + len(tail)))])
        def gen():
            yield first
            _phase("first-chunk " + arg)
            d = _wait_release(arg, 60.0)
            if d:
                time.sleep(d)
            yield tail
        return gen()
    if kind == "block":
        _phase("blocking " + arg)
        if arg == "ignabrt":
            signal.signal(signal.SIGABRT, signal.SIG_IGN)
        import time as _t
        _real_sleep = getattr(_t, "sleep")
        while True:
            _real_sleep(3600)
    if kind == "busy":
        _phase("busy " + arg)
        t0 = time.monotonic()
        while time.monotonic() - t0 < float(arg):
            pass
        return reply("pid=%d busy=%s" % (pid, arg))
    if kind == "ids":
        now = {"ruid": os.getresuid(), "rgid": os.getresgid(), "groups": sorted(os.getgroups()), "pid": pid}
        return reply(json.dumps({"import": IMPORT_IDS, "now": now}))
    return reply("unknown", "404 Not Found")
'''

CONF_HOOKS = r'''
import os as _os, time as _time, json as _json
_EV = _os.path.join(_os.path.dirname(_os.path.abspath(__file__)), "events.log")
def _ev(kind, **kw):
    kw.update(kind=kind, t=_time.monotonic(), pid=_os.getpid())
    with open(_EV, "a") as f:
        f.write(_json.dumps(kw) + "\n")
def on_starting(server): _ev("on_starting")
def when_ready(server): _ev("when_ready", master=server.pid)
def on_reload(server): _ev("on_reload")
def pre_fork(server, worker): _ev("pre_fork", age=worker.age)
def post_fork(server, worker): _ev("post_fork", age=worker.age, wpid=worker.pid)
def post_worker_init(worker): _ev("post_worker_init", age=worker.age, wpid=worker.pid)
def worker_int(worker): _ev("worker_int", wpid=worker.pid)
def worker_abort(worker): _ev("worker_abort", wpid=worker.pid)
def pre_exec(server): _ev("pre_exec")
def child_exit(server, worker): _ev("child_exit", wpid=worker.pid, age=worker.age)
def worker_exit(server, worker): _ev("worker_exit", wpid=worker.pid, nr=getattr(worker, "nr", None))
def nworkers_changed(server, new_value, old_value): _ev("nworkers_changed", new=new_value, old=old_value)
def on_exit(server): _ev("on_exit")
'''


class Server:
    # directory the master is started in (its START_CTX['cwd'], where a USR2 re-exec goes back to); None = the scratch
    # directory self.dir. Set it on the instance before start(); everything else (launcher, config, logs) stays in self.dir
    start_cwd = None
    # python source the launcher runs before it hands over to gunicorn's run() - in the very process that becomes the master (for
    # instance: create a listening socket at a known descriptor number, as a socket-activating service manager would). "" = nothing,
    # the launcher is then exactly the console script. Set it on the instance before start(). After a USR2 the launcher is executed
    # again (with GUNICORN_PID in the environment): the source has to cope with that itself
    launcher_prelude = ""
    # callable run in the forked child right before the launcher is executed (subprocess preexec_fn): the credentials the MASTER
    # is started with, e.g. lambda: (os.setgroups([0, 1, 4]), os.setgid(33)) for what `docker run --user 0:33` or a systemd unit
    # with Group= but no User= gives. None = the harness's own. Set it on the instance before start()
    preexec = None

    def __init__(self, tag, worker_class="sync", workers=1, settings=None, bind="tcp", conf_extra="",
                 env=None, app_source=None, argv_extra=None, default_conf=False):
        become_subreaper()
        # default_conf: no -c option; the master finds ./gunicorn.conf.py in the directory it is started in (the scratch directory)
        self.default_conf = default_conf
        self.dir = common.scratch_dir(tag)
        os.chmod(self.dir, 0o755)
        self.worker_class = worker_class
        self.settings = dict(settings or {})
        self.bind_kind = bind
        if bind == "both":
            # two listeners: a TCP port and a unix socket (self.addr is the TCP one, self.addr2 the unix one)
            self.port = free_port()
            self.addr = ("127.0.0.1", self.port)
            self.sockpath = os.path.join(self.dir, "g.sock")
            self.addr2 = self.sockpath
            self.bind = ["127.0.0.1:%d" % self.port, "unix:" + self.sockpath]
        elif bind == "tcp":
            self.port = free_port()
            self.addr = ("127.0.0.1", self.port)
            self.bind = "127.0.0.1:%d" % self.port
        elif bind == "tcpname":
            # the address as an administrator may write it: a host name (what the kernel reports for the socket is the number)
            self.port = free_port()
            self.addr = ("127.0.0.1", self.port)
            self.bind = "localhost:%d" % self.port
        elif bind == "tcp6":
            self.port = free_port()
            self.addr = ("::1", self.port)
            self.bind = "[::1]:%d" % self.port
        else:
            self.sockpath = os.path.join(self.dir, "g.sock")
            self.addr = self.sockpath
            self.bind = "unix:" + self.sockpath
        self.conf_path = os.path.join(self.dir, "gunicorn.conf.py")
        self.workers = workers
        self.conf_extra = conf_extra
        self.env = dict(env or {})
        self.statuses = {}
        self.proc = None
        self.master_pid = None
        self.argv_extra = list(argv_extra or [])
        with open(os.path.join(self.dir, "vapp.py"), "w") as f:
            f.write(app_source or APP_SOURCE)
        # workers may drop privileges: everything they append to must stay writable for them
        os.chmod(self.dir, 0o777)
        for name in ("events.log", "phases.log"):
            pth = os.path.join(self.dir, name)
            open(pth, "a").close()
            os.chmod(pth, 0o666)
        self.write_conf()

    def write_conf(self, **override):
        s = dict(self.settings)
        s.update(override)
        self.settings = s
        lines = ["bind = %r" % self.bind, "workers = %d" % self.workers, "worker_class = %r" % self.worker_class,
                 "errorlog = %r" % os.path.join(self.dir, "error.log"), "loglevel = 'debug'"]
        if self.worker_class == "sync":
            lines.append("threads = 1")
        for k, v in s.items():
            lines.append("%s = %r" % (k, v))
        with open(self.conf_path + ".tmp", "w") as f:
            f.write("\n".join(lines) + "\n" + CONF_HOOKS + "\n" + self.conf_extra + "\n")
        os.rename(self.conf_path + ".tmp", self.conf_path)

    def start(self):
        env = dict(os.environ)
        env.update({"PYTHONPATH": common.REPO + os.pathsep + self.dir, "PYTHONHASHSEED": "0",
                    "PYTHONDONTWRITEBYTECODE": "1", "PYTHONWARNINGS": "ignore"})
        env.pop("GUNICORN_CMD_ARGS", None)
        env.update(self.env)
        self.stderr_path = os.path.join(self.dir, "stderr.log")
        # a launcher identical to the `gunicorn` console script, kept in the scratch dir: a USR2 re-exec
        # (START_CTX: sys.executable + sys.argv) then starts from the same place with the same import path
        launcher = os.path.join(self.dir, "gunicorn_launcher.py")
        with open(launcher, "w") as f:
            f.write("import sys\n" + (self.launcher_prelude or "") +
                    "from gunicorn.app.wsgiapp import run\nif __name__ == '__main__':\n    sys.exit(run())\n")
        self.proc = subprocess.Popen([common.PY, launcher] + ([] if self.default_conf else ["-c", self.conf_path]) +
                                     self.argv_extra + ["vapp:app"],
                                     cwd=self.start_cwd or self.dir, env=env, stdout=open(self.stderr_path, "ab"),
                                     stderr=subprocess.STDOUT, start_new_session=True, preexec_fn=self.preexec)
        self.master_pid = self.proc.pid
        self.sid = self.master_pid
        self.t_start = time.monotonic()
        if self.settings.get("daemon"):
            # the launcher double-forks and exits; the daemonized master (adopted by this subreaper) names itself in the pid file
            pf = self.settings.get("pidfile")
            t0 = time.monotonic()
            self.master_pid = None
            while time.monotonic() - t0 < 15 and pf:
                self.reap()
                try:
                    with open(pf) as f:
                        self.master_pid = int(f.read().strip())
                    break
                except (OSError, ValueError):
                    time.sleep(0.05)
            if self.master_pid:
                try:
                    self.sid = os.getsid(self.master_pid)
                except OSError:
                    self.sid = self.master_pid
        return self

    # ---- observation ----------------------------------------------------------------------
    def events(self):
        out = []
        try:
            with open(os.path.join(self.dir, "events.log")) as f:
                for line in f:
                    try:
                        out.append(json.loads(line))
                    except ValueError:
                        pass
        except OSError:
            pass
        return out

    def phases(self):
        out = []
        try:
            with open(os.path.join(self.dir, "phases.log")) as f:
                for line in f:
                    p = line.split(None, 2)
                    if len(p) == 3:
                        out.append((float(p[0]), int(p[1]), p[2].strip()))
        except OSError:
            pass
        return out

    def wait_phase(self, msg, timeout=10.0):
        t0 = time.monotonic()
        while time.monotonic() - t0 < timeout:
            for t, pid, m in self.phases():
                if m == msg:
                    return pid
            time.sleep(0.01)
        return None

    def release(self, name, delay=0.0):
        p = os.path.join(self.dir, "release-" + name)
        with open(p + ".tmp", "w") as f:
            f.write("%s\n" % delay)
        os.rename(p + ".tmp", p)

    def error_log(self):
        try:
            with open(os.path.join(self.dir, "error.log"), errors="replace") as f:
                return f.read()
        except OSError:
            return ""

    def stderr(self):
        try:
            with open(self.stderr_path, errors="replace") as f:
                return f.read()
        except OSError:
            return ""

    def children_of(self, pid, table=None):
        table = table or proc_table()
        return sorted(p for p, (pp, st, _) in table.items() if pp == pid and st not in ("Z", "X"))

    def worker_pids(self, master=None):
        return self.children_of(master or self.master_pid)

    def wait_workers(self, n, timeout=15.0, master=None, booted=True):
        """Wait until the master has n live children (and, if booted, n post_worker_init events from them)."""
        t0 = time.monotonic()
        while time.monotonic() - t0 < timeout:
            self.reap()
            w = self.worker_pids(master)
            if len(w) == n:
                if not booted:
                    return w
                inited = set(e["wpid"] for e in self.events() if e["kind"] == "post_worker_init")
                if all(p in inited for p in w):
                    return w
            if not alive(master or self.master_pid):
                return None
            time.sleep(0.03)
        return None

    def wait_listening(self, timeout=10.0):
        t0 = time.monotonic()
        while time.monotonic() - t0 < timeout:
            try:
                s = connect(self.addr, 0.5)
                s.close()
                return True
            except OSError:
                time.sleep(0.05)
        return False

    # ---- control ---------------------------------------------------------------------------
    def signal(self, sig, pid=None):
        try:
            os.kill(pid or self.master_pid, sig)
            return True
        except OSError:
            return False

    def reap(self):
        """Collect exit statuses of every descendant that has exited (we are the subreaper)."""
        while True:
            try:
                pid, st = os.waitpid(-1, os.WNOHANG)
            except ChildProcessError:
                return
            if pid == 0:
                return
            self.statuses[pid] = (st, time.monotonic())

    def wait_exit(self, pid, timeout):
        t0 = time.monotonic()
        while time.monotonic() - t0 < timeout:
            self.reap()
            if pid in self.statuses:
                return self.statuses[pid]
            if not alive(pid) and pid not in proc_table():
                return (None, time.monotonic())
            time.sleep(0.02)
        return None

    def session_pids(self):
        """Every live process of the server's session (master(s) and workers of all generations)."""
        out = []
        sid = getattr(self, "sid", None) or self.master_pid
        for d in os.listdir("/proc"):
            if d.isdigit():
                try:
                    if os.getsid(int(d)) == sid and alive(int(d)):
                        out.append(int(d))
                except OSError:
                    pass
        return sorted(out)

    def cleanup(self, keep=False):
        for _ in range(3):
            pids = self.session_pids() if self.master_pid else []
            if not pids:
                break
            for p in pids:
                try:
                    os.kill(p, signal.SIGCONT)
                    os.kill(p, signal.SIGKILL)
                except OSError:
                    pass
            time.sleep(0.05)
            self.reap()
        self.reap()
        if not keep:
            shutil.rmtree(self.dir, ignore_errors=True)


# ---- client ---------------------------------------------------------------------------------------

def connect(addr, timeout=5.0):
    if isinstance(addr, tuple):
        s = socket.socket(socket.AF_INET6 if ":" in addr[0] else socket.AF_INET, socket.SOCK_STREAM)
    else:
        s = socket.socket(socket.AF_UNIX, socket.SOCK_STREAM)
    s.settimeout(timeout)
    try:
        s.connect(addr)
    except BaseException:
        s.close()
        raise
    return s


def request(addr, path="/pid", raw=None, timeout=10.0, version="1.1", headers=(), sock=None, close=True):
    """One request on a fresh (or given) connection, read to EOF (Connection: close) - classified.
    outcome: ok | refused | reset | truncated | timeout | empty (closed without a byte) | error"""
    rec = {"path": path, "t_call": time.monotonic(), "outcome": None, "data": b"", "err": None}
    s = sock
    try:
        if s is None:
            try:
                s = connect(addr, timeout)
            except ConnectionRefusedError:
                rec["outcome"] = "refused"
                return rec
            except (FileNotFoundError, OSError) as e:
                rec["outcome"] = "refused" if getattr(e, "errno", None) in (errno.ENOENT, errno.ECONNREFUSED) else "error"
                rec["err"] = repr(e)
                return rec
        rec["t_connected"] = time.monotonic()
        if raw is None:
            h = "".join("%s: %s\r\n" % kv for kv in headers)
            raw = ("GET %s HTTP/%s\r\nHost: t\r\n%s%s\r\n" % (path, version, "Connection: close\r\n" if close else "", h)).encode()
        s.settimeout(timeout)
        try:
            s.sendall(raw)
        except (BrokenPipeError, ConnectionResetError) as e:
            rec["outcome"] = "reset"
            rec["err"] = repr(e)
            return rec
        buf = b""
        while True:
            try:
                d = s.recv(65536)
            except socket.timeout:
                rec["outcome"] = "timeout"
                rec["data"] = buf
                return rec
            except ConnectionResetError as e:
                rec["outcome"] = "reset"
                rec["data"] = buf
                rec["err"] = repr(e)
                return rec
            if not d:
                break
            buf += d
            if not close and complete_response(buf):
                break
        rec["data"] = buf
        if not buf:
            rec["outcome"] = "empty"
        elif complete_response(buf):
            rec["outcome"] = "ok"
        else:
            rec["outcome"] = "truncated"
        return rec
    finally:
        rec["t_done"] = time.monotonic()
        if s is not None and sock is None:
            try:
                s.close()
            except OSError:
                pass


def complete_response(buf):
    """True if buf holds one complete Content-Length framed response of the test application."""
    e = buf.find(b"\r\n\r\n")
    if e < 0:
        return False
    head = buf[:e].decode("latin-1").lower()
    for line in head.split("\r\n")[1:]:
        if line.startswith("content-length:"):
            n = int(line.split(":")[1])
            return len(buf) - e - 4 >= n
    return False


def body_of(buf):
    e = buf.find(b"\r\n\r\n")
    return buf[e + 4:] if e >= 0 else b""


def status_of(buf):
    try:
        return int(buf.split(b" ", 2)[1])
    except Exception:
        return None
