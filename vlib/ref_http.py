"""Independent strict reference reading of an HTTP/1.x request byte stream
(RFC 9112 sections 2-7, RFC 9110 5.1/5.5/5.6.2).  Imports nothing from gunicorn.

walk(stream, header_map) -> list[Msg]; the list ends with the first message that is
not status "ok" (reject / incomplete), or after the last complete message.

Three-valued: a message is
  ok         - strict reading accepts it, frame pinned (fields below)
  reject     - the property's list says this MUST be rejected (reason given)
  incomplete - the stream ends inside this message (head_complete tells where)
`either` collects the places where the property leaves acceptance open (the server may
reject; if it accepts, the frame is the one given here).  `no_follow` = the server may accept
this message but then must not yield a further request from the connection (RFC demands
400 + close; the property's list does not name the case).  `body_unpinned` = in that case the
body bytes are not compared.
"""

TOKEN_CHARS = frozenset(b"!#$%&'*+-.^_`|~0123456789"
                        b"abcdefghijklmnopqrstuvwxyzABCDEFGHIJKLMNOPQRSTUVWXYZ")
HEXDIG = frozenset(b"0123456789abcdefABCDEF")
DIGITS = frozenset(b"0123456789")
KNOWN_CODINGS = (b"chunked", b"gzip", b"deflate", b"compress", b"identity")
ALIAS_CODINGS = (b"x-gzip", b"x-compress")


def is_token(b):
    return len(b) > 0 and all(c in TOKEN_CHARS for c in b)


class Msg:
    __slots__ = ("status", "reason", "start", "end", "method", "target", "version",
                 "headers", "body", "trailers", "framing", "no_follow", "body_unpinned",
                 "persistent_sure", "either", "head_complete", "head_end", "nchunks", "body_started")

    def __init__(self, start):
        self.status = "ok"
        self.reason = None
        self.start = start
        self.end = None
        self.method = self.target = None
        self.version = None
        self.headers = []       # [(NAME upper str, value str latin-1 OWS-trimmed)]
        self.body = b""
        self.trailers = []
        self.framing = "none"
        self.no_follow = False
        self.body_unpinned = False
        self.persistent_sure = False
        self.either = set()
        self.head_complete = False
        self.head_end = None
        self.nchunks = 0
        self.body_started = False

    def rej(self, reason):
        self.status = "reject"
        self.reason = reason
        return self

    def inc(self, reason):
        self.status = "incomplete"
        self.reason = reason
        return self

    def brief(self):
        return {"status": self.status, "reason": self.reason, "start": self.start,
                "end": self.end, "framing": self.framing, "either": sorted(self.either),
                "no_follow": self.no_follow}


def _field_lines(stream, pos, m, header_map, what):
    """Parse field lines from pos until the empty line. Returns (fields, newpos) or None after
    having set m.status.  fields: [(name_bytes, value_bytes)]"""
    fields = []
    # the section is complete only if its terminating empty line arrived; a stream that ends
    # inside the section is "incomplete" whatever the lines seen so far look like (a server
    # that waits for the whole block before judging it is as correct as one that rejects early)
    if stream.find(b"\r\n\r\n", pos - 2) < 0:
        m.inc("%s not terminated before end of stream" % what)
        return None
    while True:
        idx = stream.find(b"\r\n", pos)
        if idx < 0:
            m.inc("%s not terminated before end of stream" % what)
            return None
        line = stream[pos:idx]
        pos = idx + 2
        if not line:
            return fields, pos
        if line[:1] in (b" ", b"\t"):
            m.rej("%s obs-fold (line starting with whitespace)" % what)
            return None
        c = line.find(b":")
        if c < 0:
            m.rej("%s line without colon" % what)
            return None
        name, value = line[:c], line[c + 1:]
        if not name:
            m.rej("%s empty field name" % what)
            return None
        if not is_token(name):
            if name[-1:] in (b" ", b"\t") and is_token(name.rstrip(b" \t")):
                m.rej("%s whitespace between field name and colon" % what)
            else:
                m.rej("%s field name is not a token" % what)
            return None
        value = value.strip(b" \t")
        if b"\0" in value or b"\r" in value or b"\n" in value:
            m.rej("%s NUL, bare CR or bare LF in field value" % what)
            return None
        if any((c < 0x20 and c != 9) or c == 0x7f for c in value):
            m.either.add("ctl-in-value")
        if b"_" in name:
            if header_map == "drop":
                m.either.add("underscore-dropped")
                continue
            m.either.add("underscore-refuse")
        fields.append((name, value))


def _chunked(stream, pos, m, header_map):
    body = []
    while True:
        idx = stream.find(b"\r\n", pos)
        if idx < 0:
            m.body = b"".join(body)
            # a chunk-size line that can no longer become valid is still "incomplete":
            # the stream ended; nothing more can be demanded than "no further request"
            return m.inc("chunk-size line not terminated")
        line = stream[pos:idx]
        if b";" in line:
            size_part, ext = line.split(b";", 1)
            size_part = size_part.rstrip(b" \t")
            m.either.add("chunk-ext")
        else:
            size_part = line
        if not size_part or any(c not in HEXDIG for c in size_part):
            m.body = b"".join(body)
            return m.rej("chunk-size is not 1*HEXDIG|%r" % bytes(size_part[:20]))
        size = int(size_part, 16)
        pos = idx + 2
        if size == 0:
            break
        data = stream[pos:pos + size]
        body.append(data)
        if len(data) < size:
            m.body = b"".join(body)
            return m.inc("chunk data truncated")
        pos += size
        term = stream[pos:pos + 2]
        if len(term) < 2 and b"\r\n".startswith(term):
            m.body = b"".join(body)
            return m.inc("chunk terminator truncated")
        if term != b"\r\n":
            m.body = b"".join(body)
            return m.rej("chunk data not followed by CRLF")
        pos += 2
        m.nchunks += 1
    m.body = b"".join(body)
    r = _field_lines(stream, pos, m, header_map, "trailer")
    if r is None:
        return m
    fields, pos = r
    m.trailers = [(n.decode("latin-1").upper(), v.decode("latin-1")) for n, v in fields]
    if fields:
        m.either.add("trailers")
    m.end = pos
    return m


def parse_one(stream, pos, header_map="drop"):
    m = Msg(pos)
    # leading empty line(s): a server SHOULD ignore at least one; gunicorn rejects. EITHER.
    while stream[pos:pos + 2] == b"\r\n":
        m.either.add("leading-crlf")
        pos += 2
    idx = stream.find(b"\r\n", pos)
    if idx < 0:
        return m.inc("request line not terminated")
    line = stream[pos:idx]
    pos = idx + 2
    parts = line.split(b" ")
    if len(parts) != 3:
        return m.rej("request line is not method SP target SP version")
    method, target, version = parts
    if not is_token(method):
        return m.rej("method is not a token")
    if not target:
        return m.rej("empty request target")
    if not (len(version) == 8 and version[:7] == b"HTTP/1." and version[7] in DIGITS):
        return m.rej("version is not HTTP/1.<digit>")
    if any(c < 0x21 or c > 0x7e for c in target):
        m.either.add("target-bytes")
    if b"[" in target or b"]" in target:
        m.either.add("target-brackets")
    if not (3 <= len(method) <= 20) or any(c in b"abcdefghijklmnopqrstuvwxyz#" for c in method):
        m.either.add("method-convention")
    m.method = method.decode("latin-1")
    m.target = target.decode("latin-1")
    m.version = (1, version[7] - 48)
    r = _field_lines(stream, pos, m, header_map, "header")
    if r is None:
        return m
    fields, pos = r
    m.head_complete = True
    m.head_end = pos
    m.headers = [(n.decode("latin-1").upper(), v.decode("latin-1")) for n, v in fields]

    cl_lines = [v for n, v in fields if n.upper() == b"CONTENT-LENGTH"]
    te_lines = [v for n, v in fields if n.upper() == b"TRANSFER-ENCODING"]
    conn_lines = [v for n, v in fields if n.upper() == b"CONNECTION"]

    chunked = False
    other_coding = False
    if te_lines:
        elems = []
        for v in te_lines:
            elems.extend(e.strip(b" \t") for e in v.split(b","))
        if any(not e for e in elems):
            m.either.add("te-empty-element")
        elems = [e for e in elems if e]
        if not elems:
            m.either.add("te-empty")
        n_chunked = 0
        for i, e in enumerate(elems):
            if not is_token(e):
                return m.rej("transfer-coding is not a token|%r" % bytes(e[:30]))
            le = e.lower()
            if le == b"chunked":
                n_chunked += 1
                if n_chunked > 1:
                    return m.rej("chunked repeated")
                if i != len(elems) - 1:
                    return m.rej("chunked is not the last transfer coding")
            elif le in KNOWN_CODINGS:
                if le != b"identity":
                    other_coding = True
            elif le in ALIAS_CODINGS:
                other_coding = True
                m.either.add("te-alias-coding")
            else:
                return m.rej("unknown transfer coding|%r" % bytes(e[:30]))
        chunked = n_chunked == 1
        if chunked and m.version < (1, 1):
            return m.rej("chunked on HTTP/1.0")
        if chunked and cl_lines:
            return m.rej("Content-Length together with chunked")
        if not chunked and other_coding:
            # RFC: 400 and close. Property list does not name it: accept-and-close tolerated.
            m.either.add("te-without-chunked")
            m.no_follow = True
            m.body_unpinned = True
        if not chunked and not other_coding:
            m.either.add("te-identity-only")
    if len(cl_lines) > 1:
        return m.rej("repeated Content-Length")
    if cl_lines:
        v = cl_lines[0]
        if not v or any(c not in DIGITS for c in v):
            return m.rej("Content-Length is not 1*DIGIT|%r" % bytes(v[:30]))

    m.persistent_sure = (m.version == (1, 1) and not conn_lines and not other_coding
                         and "te-identity-only" not in m.either and "te-empty" not in m.either)

    if chunked:
        m.framing = "chunked"
        m.body_started = True       # the head (framing headers included) is valid; what follows is body syntax
        return _chunked(stream, pos, m, header_map)
    if cl_lines:
        m.framing = "cl"
        n = int(cl_lines[0])
        m.body = stream[pos:pos + n]
        if len(m.body) < n:
            return m.inc("body shorter than Content-Length")
        m.end = pos + n
        return m
    m.framing = "none"
    m.end = pos
    return m


def walk(stream, header_map="drop", max_msgs=64):
    msgs = []
    pos = 0
    while pos < len(stream) and len(msgs) < max_msgs:
        m = parse_one(stream, pos, header_map)
        msgs.append(m)
        if m.status != "ok":
            break
        pos = m.end
    return msgs
