"""Engine E1: the real gunicorn RequestParser over scripted byte sources.

observe(cfg, pieces, ...) drives `gunicorn.http.RequestParser` exactly like a worker does
(next(parser), then the application reads req.body) and records what is observable at that
boundary.  Nothing in gunicorn is patched.
"""
from vlib.common import use_repo

use_repo()
from gunicorn.config import Config            # noqa: E402
from gunicorn.http import RequestParser       # noqa: E402
from gunicorn.http.errors import NoMoreData   # noqa: E402

UNTRUSTED_PEER = ("10.7.7.7", 5555)
_cfg_cache = {}


def make_cfg(**settings):
    key = tuple(sorted((k, repr(v)) for k, v in settings.items()))
    c = _cfg_cache.get(key)
    if c is None:
        c = Config()
        for k, v in settings.items():
            c.set(k, v)
        _cfg_cache[key] = c
    return c


class Metered:
    """Iterator over byte pieces that counts what was pulled; `pieces` may be any iterable
    (also an endless generator)."""

    def __init__(self, pieces):
        self.it = iter(pieces)
        self.pulled = 0
        self.npieces = 0
        self.exhausted = False

    def __iter__(self):
        return self

    def __next__(self):
        try:
            p = next(self.it)
        except StopIteration:
            self.exhausted = True
            raise
        self.pulled += len(p)
        self.npieces += 1
        return p


def read_all(body):
    return body.read()


def unreader_backlog(parser):
    """Auxiliary (implementation-internal) view: bytes pulled from the source but pushed
    back to the unreader. Returns None if the internals are not what we expect."""
    try:
        return len(parser.unreader.buf.getvalue())
    except Exception:
        return None


def observe(cfg, pieces, peer=UNTRUSTED_PEER, consumer=read_all, max_reqs=64, after_body=None):
    """Returns dict: reqs (list of records), terminal (tuple), pulled (bytes)."""
    src = Metered(pieces)
    parser = RequestParser(cfg, src, peer)
    reqs = []
    terminal = None
    while len(reqs) < max_reqs:
        try:
            req = next(parser)
        except StopIteration:
            terminal = ("end",)
            break
        except NoMoreData:
            terminal = ("premature",)
            break
        except Exception as e:          # noqa: BLE001 - every rejection class
            terminal = ("reject", type(e).__name__)
            break
        rec = {
            "method": req.method, "uri": req.uri, "version": tuple(req.version),
            "headers": [(n, v) for n, v in req.headers],
            "pulled_at_yield": src.pulled,
        }
        try:
            rec["body"] = consumer(req.body)
        except Exception as e:          # noqa: BLE001
            rec["body_error"] = type(e).__name__
            reqs.append(rec)
            terminal = ("body_error", type(e).__name__)
            break
        rec["trailers"] = [(n, v) for n, v in req.trailers]
        back = unreader_backlog(parser)
        rec["consumed"] = None if back is None else src.pulled - back
        reqs.append(rec)
        if after_body is not None:
            after_body(req, rec)
    else:
        terminal = ("max_reqs",)
    return {"reqs": reqs, "terminal": terminal, "pulled": src.pulled, "exhausted": src.exhausted}


def obs_signature(obs, with_error_class=False):
    """Comparable form of an observation (C06): everything except exception wording."""
    reqs = []
    for r in obs["reqs"]:
        reqs.append((r["method"], r["uri"], r["version"], tuple(r["headers"]),
                     r.get("body"), tuple(r.get("trailers", ())), "body_error" in r))
    t = obs["terminal"]
    if not with_error_class:
        t = t[:1]
        # a stream that ends inside an over-limit / malformed head is "premature end" when the EOF is
        # seen in the same read and "rejected" when the bad part arrived earlier: same point, same
        # effect (no request handed over) - compared as one class
        if t[0] in ("premature", "reject"):
            t = ("refused",)
    return (tuple(reqs), t)
