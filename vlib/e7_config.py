"""Engine E7 `config-lab`: the real `gunicorn.app.wsgiapp.WSGIApplication` configuration loading path,
executed in a helper process, one fresh application object per cell.

Two halves live in this file:

* the *client* half (`describe()`, `run_recipes()`, `make_home()`, `ser()`), imported by checks/c16.py.
  It imports nothing from gunicorn; it starts `python e7_config.py <mode>` with subprocess.run().
* the *helper* half (`_helper_main`), which runs in that subprocess, imports gunicorn from common.REPO
  (asserted), and for every recipe sets up the four configuration sources

      command line           sys.argv
      GUNICORN_CMD_ARGS      os.environ (Config captures os.environ at construction: env_orig)
      configuration file     files written below the home directory (-c PATH, ./gunicorn.conf.py, python:MOD)
      framework defaults     the dict returned by LabApp.init() - Application.load_config applies it with
                             cfg.set(k.lower(), v), which is how frameworks hand their defaults to gunicorn

  constructs `LabApp` (BaseApplication.__init__ -> do_load_config -> load_default_config + load_config) and
  reports `cfg.settings[name].get()` of EVERY setting in a stable serialisation, or the failure; next to that
  (`effective`) the DERIVED `Config` properties the server really acts on where evaluating them is a pure read:
  cfg.sendfile (consults the SENDFILE environment variable at access time), cfg.address, cfg.uid, cfg.gid,
  cfg.proc_name, cfg.worker_class_str, cfg.env, cfg.is_ssl (truth value), cfg.ssl_options, cfg.reuse_port,
  cfg.paste_global_conf.  A recipe may carry `environ` ({variable: value | None}): further variables of the
  server's environment, set (None: removed) before the application object is made; such a cell is then loaded a
  second time with those variables absent and the observation carries that load as `control`.
  `Application.run()` is never called: nothing is daemonised, bound, forked or logged; loading only stores values,
  with one exception that the harness accounts for: `Application.chdir()` does os.chdir(cfg.chdir).

  A recipe may carry `steps` (a reload history) or `master: true`.  Then, after the initial load, the helper
  creates a REAL `gunicorn.arbiter.Arbiter` from the loaded application - `Arbiter.__init__` -> `setup()` adopts
  `app.cfg` and exports `cfg.env` (the `raw_env` entries) into os.environ exactly as a real master does - and the
  values reported for the start are those of `arb.cfg`.  Each step rewrites / removes configuration files and then
  executes the REAL `Arbiter.reload()`, the master's whole answer to SIGHUP: take the old `raw_env` exports out of
  os.environ, `self.app.reload()` (a new Config, whose `env_orig` is os.environ at that moment), `self.setup()`
  (adopt `app.cfg`, export the new `raw_env`), `on_reload`, pid file, workers.  Only the outward effects are
  neutralised, in this helper process only (`_neutralise`):

      Config.logger_class / Config.worker_class   properties returning inert dummy classes (no log file, statsd
                                                  socket or worker module is touched whatever values a cell uses;
                                                  the OBSERVED values are cfg.settings[k].get(), which stay real)
      gunicorn.sock.create_sockets / close_sockets  -> [] / nothing          gunicorn.arbiter.Pidfile -> inert dummy
      util._setproctitle -> nothing                 gunicorn.debug.spew -> nothing (reload() would install the
                                                  line tracer when the merged `spew` is true)
      on the instances: app.wsgi (preload_app), arb.spawn_worker / spawn_workers / manage_workers / kill_workers
                        -> nothing;  arb.pid = os.getpid() (what Arbiter.start() would have set)

  Hooks given by configuration files (`nworkers_changed`, `on_reload`) run as they are.  `Arbiter.start()` / `run()`
  are never called: no signal handler, socket, pid file, fork.  The master adopts the new configuration if and only
  if `Arbiter.reload()` gets as far as `setup()`; per step the helper reports whether the call returned and, if so,
  every setting of `arb.cfg` (what the master runs with from then on), and which of the variables gunicorn reads itself
  (GUNICORN_CMD_ARGS, WEB_CONCURRENCY, PORT, FORWARDED_ALLOW_IPS) `arb.cfg.env_orig` - the environment `reexec()`
  hands to the next master on SIGUSR2 - holds, next to what the server's environment held when the cell began
  (`server_env`) and what os.environ held of them (and of the names in the recipe's `watch`) when the reload began
  (`env_before`: shows that the master really had exported the former version's `raw_env`).
  An exception escaping `Arbiter.reload()` (SystemExit included) leaves the main loop and ends the master: the
  history ends at the first reload that does not return.  If the Arbiter cannot be CONSTRUCTED from a loaded
  application the observation carries `harness` (the reason) and the check must report the cell as inconclusive -
  there is no fallback to a cheaper emulation.

  os.environ is snapshotted when a cell begins and put back when it ends (`raw_env` exports and SERVER_SOFTWARE, which
  `Arbiter.__init__` sets, do not reach the next cell); sys.argv and the framework dict stay in place for the reloads.

  While a cell runs, `Setting.set` is watched (wrapped, the exception passes through unchanged): the helper reports
  which setting's validator rejected a value and with which exception type (`rejected`).  That is an auxiliary
  observation - it names the reach counters ("rejected with AttributeError", ...), no verdict rests on it.

The process cwd while gunicorn.config is imported is the home directory, and stays the cwd of every cell:
`Chdir.default` is computed at import (util.getcwd()), so this is what a real `gunicorn` launch from that
directory looks like (default-config-file discovery happens after the first Application.chdir()).
"""
import contextlib
import functools
import io
import json
import os
import subprocess
import sys

_VERIF = os.path.dirname(os.path.dirname(os.path.abspath(__file__)))
if _VERIF not in sys.path:
    sys.path.insert(1, _VERIF)

from vlib import common  # noqa: E402

MARK = "_c16_loaded"            # attribute of `sys` in which generated config files record that they ran
REJECTED = []                   # helper half: [setting, exception type] for every value a validator refused
FILE_HEADER = ("import sys as _c16_sys\n"
               "_c16_sys.__dict__.setdefault(%r, []).append(__file__)\n" % MARK)


# ---- stable serialisation of setting values (shared by model and helper) -------------------------

def ser(v):
    """Type-faithful, address-free text form: 7, '7', True and 1 all differ; functions and classes by
    their qualified name only (the module name of a generated config file is an implementation detail)."""
    if v is None or isinstance(v, (bool, str, bytes)):
        return repr(v)
    if type(v) in (int, float):
        return repr(v)
    if isinstance(v, int):                     # enum members such as ssl.CERT_NONE
        return "<%s %d>" % (type(v).__name__, int(v))
    if isinstance(v, list):
        return "[" + ", ".join(ser(x) for x in v) + "]"
    if isinstance(v, tuple):
        return "(" + ", ".join(ser(x) for x in v) + ")"
    if isinstance(v, dict):
        return "{" + ", ".join("%s: %s" % (k, x) for k, x in sorted((ser(k), ser(x)) for k, x in v.items())) + "}"
    if isinstance(v, type):
        return "<class %s>" % v.__qualname__
    if isinstance(v, functools.partial):
        return "<partial %s args=%s>" % (ser(v.func), ser(list(v.args)))
    if callable(v) and not hasattr(v, "__qualname__"):      # an instance of a class defining __call__
        return "<callable-obj %s>" % type(v).__qualname__
    if callable(v):
        return "<fn %s>" % getattr(v, "__qualname__", type(v).__name__)
    return "<obj %s>" % type(v).__name__


# ---- fixtures -------------------------------------------------------------------------------------

def make_home(home):
    """Create the fixed fixtures of a home directory (existing dirs/files that path-valued settings point
    to, a stub `paste.deploy` so that `--paste FILE` is loadable without PasteDeploy installed)."""
    p = {"home": home}
    for d in ("d1", "d2", "d3", "d4"):
        os.makedirs(os.path.join(home, d), exist_ok=True)
        p[d] = os.path.join(home, d)
    for f in ("f1.txt", "f2.txt", "f3.txt", "f4.txt"):
        with open(os.path.join(home, f), "w") as fh:
            fh.write("x\n")
        p[f[:2]] = os.path.join(home, f)
    for f in ("p1.ini", "p2.ini"):            # no [loggers] section: --paste must not imply logconfig
        with open(os.path.join(home, f), "w") as fh:
            fh.write("[app:main]\nuse = egg:nothing\n[app:alt]\nuse = egg:nothing\n")
        p[f[:2]] = os.path.join(home, f)
    stubs = os.path.join(home, "_stubs", "paste")
    os.makedirs(stubs, exist_ok=True)
    with open(os.path.join(stubs, "__init__.py"), "w") as fh:
        fh.write("")
    with open(os.path.join(stubs, "deploy.py"), "w") as fh:
        fh.write("def loadapp(*a, **k):\n    raise RuntimeError('stub paste.deploy: never loaded by C16')\n")
    with open(os.path.join(home, "app.py"), "w") as fh:
        fh.write("def app(environ, start_response):\n    start_response('200 OK', [])\n    return [b'']\n")
    with open(os.path.join(home, SHARED + ".py"), "w") as fh:
        fh.write(shared_module_text())
    return p


SHARED = "c16_shared"           # a module next to the config files, from which they import hooks and classes
MAX_ARITY = 6


def shared_module_text():
    """What deployments share between config files: hooks as plain functions (one per arity), as instances of
    a class with __call__, and worker / logger classes.  `c16_shared_hook_<n>` takes n positional arguments."""
    out = ['"""hooks and classes shared by several gunicorn configuration files (C16 fixture)"""\n']
    for n in range(MAX_ARITY + 1):
        args = ", ".join("a%d" % i for i in range(n))
        out.append("def c16_shared_hook_%d(%s):\n    pass\n\n" % (n, args))
        out.append("class C16SharedCallable%d:\n    def __call__(%s):\n        pass\n\n" % (
            n, ", ".join(["self"] + ["a%d" % i for i in range(n)])))
        out.append("c16_shared_obj_%d = C16SharedCallable%d()\n\n" % (n, n))
    out.append("class C16SharedWorker:\n    pass\n\n")
    out.append("class C16SharedLogger:\n    pass\n")
    return "".join(out)


# ---- client half ----------------------------------------------------------------------------------

def _spawn(mode, home, payload, timeout):
    env = dict(os.environ)
    env.pop("GUNICORN_CMD_ARGS", None)
    env.pop("SENDFILE", None)
    env["PWD"] = home
    env["VERIF_REPO"] = common.REPO
    env["PYTHONDONTWRITEBYTECODE"] = "1"
    env.setdefault("PYTHONHASHSEED", "0")
    p = subprocess.run([common.PY, os.path.abspath(__file__), mode, home], input=json.dumps(payload).encode(),
                       stdout=subprocess.PIPE, stderr=subprocess.PIPE, cwd=home, env=env, timeout=timeout)
    if p.returncode != 0:
        raise RuntimeError("config-lab helper rc=%s stderr=%s" % (p.returncode, p.stderr.decode()[-1500:]))
    return json.loads(p.stdout.decode().strip().splitlines()[-1])


def describe(home, timeout=60):
    """Interface facts of every setting, enumerated at run time from gunicorn.config.make_settings():
    name, cli flags, argparse action/const, validator name (+ arity for hook validators)."""
    return _spawn("describe", home, {}, timeout)


def run_recipes(home, recipes, timeout=300):
    """Execute recipes in ONE fresh helper process (fresh application object per recipe)."""
    return _spawn("run", home, {"recipes": recipes}, timeout)


# ---- helper half ----------------------------------------------------------------------------------

def _describe():
    from gunicorn import config
    out = []
    for name, s in config.make_settings().items():
        v = s.validator
        vname = getattr(v, "__name__", type(v).__name__)
        arity = None
        if vname == "_validate_callable":
            vname = "validate_callable"
            arity = v.__closure__[0].cell_contents
        out.append({"name": name, "cli": list(s.cli) if s.cli else [], "action": s.action or "store",
                    "const": s.const, "validator": vname, "arity": arity,
                    "cli_type": getattr(s.type, "__name__", None) if s.type else None,
                    "section": getattr(s, "section", None)})
    return out


# Derived `Config` properties - what the server USES for a setting (or a group of settings) instead of the stored
# value.  Only those whose evaluation is a pure read: `worker_class` / `logger_class` import modules and call
# setup() / install(), they stay out (and are neutralised below anyway).
EFFECTIVE = ("sendfile", "address", "uid", "gid", "proc_name", "worker_class_str", "env", "is_ssl", "ssl_options",
             "reuse_port", "paste_global_conf")


def _effective(cfg):
    """ser() of every derived property (`is_ssl`: its truth value); an exception is reported as '!<type>'."""
    out = {}
    for n in EFFECTIVE:
        try:
            v = getattr(cfg, n)
            out[n] = ser(bool(v)) if n == "is_ssl" else ser(v)
        except Exception as e:                  # noqa: BLE001 - reported, judged by the check
            out[n] = "!" + type(e).__name__
    return out


OWN_VARIABLES = ("GUNICORN_CMD_ARGS", "WEB_CONCURRENCY", "PORT", "FORWARDED_ALLOW_IPS")   # read by gunicorn itself


def _nothing(*a, **k):
    return None


class _InertLog:
    """Stands in for cfg.logger_class: accepts every call a master makes on its log, touches nothing."""

    def __init__(self, cfg):
        self.cfg = cfg

    def __getattr__(self, name):
        if name.startswith("__"):
            raise AttributeError(name)
        return _nothing


class _InertWorker:
    """Stands in for cfg.worker_class: never instantiated (spawn_worker is switched off)."""


class _InertPidfile:
    def __init__(self, fname):
        self.fname = fname

    def create(self, pid):
        pass

    def rename(self, path):
        self.fname = path

    def unlink(self):
        pass

    def validate(self):
        return None


def _neutralise():
    """Switch the outward effects of a master off, in this helper process (see the module docstring)."""
    from gunicorn import arbiter as garbiter, config as gconfig, debug, sock, util
    debug.spew = _nothing
    gconfig.Config.logger_class = property(lambda self: _InertLog)
    gconfig.Config.worker_class = property(lambda self: _InertWorker)
    sock.create_sockets = lambda *a, **k: []
    sock.close_sockets = _nothing
    assert garbiter.sock is sock and garbiter.util is util
    garbiter.Pidfile = _InertPidfile
    util._setproctitle = _nothing
    return garbiter.Arbiter


def _master(Arbiter, app):
    """The master of a loaded application, as far as Arbiter.__init__ takes it (adopt cfg, export raw_env)."""
    app.wsgi = _nothing                           # preload_app: setup() would import the application
    arb = Arbiter(app)
    arb.pid = os.getpid()                         # Arbiter.start()
    for n in ("spawn_worker", "spawn_workers", "manage_workers", "kill_workers", "kill_worker"):
        setattr(arb, n, _nothing)
    return arb


def _own_variables(env, more=()):
    return {k: env[k] for k in OWN_VARIABLES + tuple(more) if k in env}


def _load_one(home, base_path, base_modules, recipe, LabApp, Arbiter):
    """One cell: set the sources up, load, observe, clean up."""
    # -- reset everything a previous load may have touched
    environ_before = dict(os.environ)
    os.chdir(home)
    os.environ["PWD"] = home
    sys.path[:] = list(base_path)
    for m in list(sys.modules):
        if m not in base_modules and (m == "__config__" or m.startswith("c16_cfgmod") or m == SHARED):
            del sys.modules[m]
    setattr(sys, MARK, [])
    del REJECTED[:]
    os.environ.pop("GUNICORN_CMD_ARGS", None)
    if recipe.get("env") is not None:
        os.environ["GUNICORN_CMD_ARGS"] = recipe["env"]
    for k, v in (recipe.get("environ") or {}).items():      # further variables of the server's environment
        if v is None:
            os.environ.pop(k, None)
        else:
            os.environ[k] = v
    written = []

    def put(files):
        for path, content in files.items():
            if content is None:
                with contextlib.suppress(OSError):
                    os.unlink(path)
                continue
            with open(path, "w") as fh:
                fh.write(content)
            if path not in written:
                written.append(path)
        importlib.invalidate_caches()

    import importlib
    put(recipe.get("files", {}))
    framework = None
    if recipe.get("framework"):
        ns = {"__name__": "__framework__"}
        sys.path.insert(0, home)                 # a framework imports from wherever it lives
        try:
            exec(compile(recipe["framework"], "<framework-defaults>", "exec"), ns)
        finally:
            sys.path[:] = list(base_path)
        framework = ns["FRAMEWORK"]
    old_argv = sys.argv
    sys.argv = ["gunicorn"] + list(recipe["argv"])
    err, out = io.StringIO(), io.StringIO()
    try:
        with contextlib.redirect_stderr(err), contextlib.redirect_stdout(out):
            try:
                server_env = _own_variables(os.environ)
                app = LabApp(framework)
                cfg, arb, harness = app.cfg, None, None
                if recipe.get("steps") or recipe.get("master"):
                    try:
                        arb = _master(Arbiter, app)
                        cfg = arb.cfg
                    except BaseException as e:      # noqa: B036 - not judged: the check reports it as inconclusive
                        harness = "no Arbiter for a loaded application: %s: %s" % (type(e).__name__, str(e)[:200])
                obs = {"ok": True,
                       "values": {k: ser(s.get()) for k, s in cfg.settings.items()},
                       "effective": _effective(cfg),
                       "loaded": list(getattr(sys, MARK, [])), "cwd": os.getcwd(),
                       "rejected": [list(x) for x in REJECTED]}
                if arb is not None:
                    obs["server_env"] = server_env
                    obs["reexec_env"] = _own_variables(arb.cfg.env_orig)
                if harness:
                    obs["harness"] = harness
                if recipe.get("steps"):
                    obs["steps"] = []
                for step in (recipe.get("steps", []) if arb is not None else []):
                    # SIGHUP: the master calls self.reload() from its main loop
                    setattr(sys, MARK, [])
                    del REJECTED[:]
                    put(step.get("files", {}))
                    env_before = _own_variables(os.environ, recipe.get("watch", ()))
                    try:
                        arb.reload()
                        so = {"returned": True,
                              "values": {k: ser(s.get()) for k, s in arb.cfg.settings.items()},
                              "effective": _effective(arb.cfg),
                              "reexec_env": _own_variables(arb.cfg.env_orig)}
                    except SystemExit as e:
                        so = {"returned": False, "exc": "SystemExit",
                              "code": e.code if isinstance(e.code, int) or e.code is None else 1}
                    except BaseException as e:      # noqa: B036 - whatever escapes ends the master
                        so = {"returned": False, "exc": type(e).__name__, "code": 1, "msg": str(e)[:200]}
                    so["loaded"] = list(getattr(sys, MARK, []))
                    so["rejected"] = [list(x) for x in REJECTED]
                    so["env_before"] = env_before       # os.environ when the reload began (own + recipe["watch"])
                    obs["steps"].append(so)
                    if not so["returned"]:
                        break
            except SystemExit as e:
                obs = {"ok": False, "exc": "SystemExit", "code": e.code if isinstance(e.code, int) or e.code is None
                       else 1, "loaded": list(getattr(sys, MARK, []))}
            except BaseException as e:          # an escaping exception ends a real process with status 1
                obs = {"ok": False, "exc": type(e).__name__, "code": 1, "msg": str(e)[:200],
                       "loaded": list(getattr(sys, MARK, []))}
    finally:
        sys.argv = old_argv
        os.chdir(home)
        os.environ.clear()                       # raw_env exports, SERVER_SOFTWARE, GUNICORN_CMD_ARGS of this cell
        os.environ.update(environ_before)
        for path in written:
            try:
                os.unlink(path)
            except OSError:
                pass
    if "rejected" not in obs:
        obs["rejected"] = [list(x) for x in REJECTED]
    obs["stderr"] = err.getvalue()[-300:]
    if obs.get("steps"):
        obs["stderr_all"] = err.getvalue()[-600:]
    return obs


def _helper_main(mode, home):
    payload = json.loads(sys.stdin.read() or "{}")
    sys.dont_write_bytecode = True
    os.chdir(home)
    os.environ["PWD"] = home
    stubs = os.path.join(home, "_stubs")
    if stubs not in sys.path:
        sys.path.append(stubs)
    common.use_repo()
    if mode == "describe":
        res = _describe()
    else:
        from gunicorn.app.wsgiapp import WSGIApplication
        # BaseApplication.reload() ends with `if self.cfg.spew: debug.spew()`, which installs a sys.settrace
        # hook printing every executed line: an effect of the setting, not part of the merge - switched off,
        # like everything else a master does to the outside world
        Arbiter = _neutralise()
        from gunicorn import config as gconfig
        plain_set = gconfig.Setting.set

        def watched_set(self, val):
            try:
                return plain_set(self, val)
            except BaseException as e:          # noqa: B036 - only noted; the exception goes its way unchanged
                REJECTED.append([self.name, type(e).__name__])
                raise

        gconfig.Setting.set = watched_set

        class LabApp(WSGIApplication):
            """The real WSGI application; init() additionally returns the framework-defaults dict."""

            def __init__(self, framework):
                self._framework = framework
                super().__init__("%(prog)s [OPTIONS] [APP_MODULE]", prog="gunicorn")

            def init(self, parser, opts, args):
                super().init(parser, opts, args)
                return self._framework

        base_path = list(sys.path)
        base_modules = set(sys.modules)
        res = []
        for r in payload["recipes"]:
            o = _load_one(home, base_path, base_modules, r, LabApp, Arbiter)
            if [1 for v in (r.get("environ") or {}).values() if v is not None]:
                # the control: the same sources loaded once more, in an environment WITHOUT those variables
                c = _load_one(home, base_path, base_modules, dict(r, environ={k: None for k in r["environ"]}),
                              LabApp, Arbiter)
                o["control"] = {k: c.get(k) for k in ("ok", "values", "effective", "loaded", "exc", "code")}
            res.append(o)
    sys.stdout.write("\n" + json.dumps(res) + "\n")
    sys.stdout.flush()
    return 0


if __name__ == "__main__":
    sys.exit(_helper_main(sys.argv[1], sys.argv[2]))
