"""Independent strict HTTP/1.x *response* stream reader (client side).  No gunicorn import.

parse(data, req_methods) -> Result with .responses (list of Resp) and .problem (None or a short
label of the first malformation) and .rest (unparsed bytes).
`req_methods` = list of request methods in the order the server should answer them (needed
for HEAD).  Interim 1xx responses are collected into the next final response (.interim).
"""
import re

TOKEN = re.compile(rb"^[!#$%&'*+\-.^_`|~0-9A-Za-z]+$")
STATUS_LINE = re.compile(rb"^HTTP/1\.([0-9]) ([0-9]{3})(?: ([^\r\n\x00]*))?$")
HEXSIZE = re.compile(rb"^[0-9A-Fa-f]+$")


class Resp:
    def __init__(self):
        self.version = None
        self.status = None
        self.reason = None
        self.headers = []          # [(name bytes, value bytes)] as on the wire, value OWS-trimmed
        self.raw_head = b""
        self.head_lines = []
        self.body = b""
        self.framing = None        # "none" | "cl" | "chunked" | "close"
        self.complete = False
        self.interim = []
        self.nlast_chunks = 0
        self.start = 0
        self.end = None

    def get(self, name):
        name = name.lower()
        return [v for n, v in self.headers if n.lower() == name]

    def announces_close(self):
        toks = []
        for v in self.get(b"connection"):
            toks += [t.strip().lower() for t in v.split(b",")]
        return b"close" in toks

    def announces_keepalive(self):
        toks = []
        for v in self.get(b"connection"):
            toks += [t.strip().lower() for t in v.split(b",")]
        return b"keep-alive" in toks

    def brief(self):
        return {"status": self.status, "framing": self.framing, "complete": self.complete,
                "body_len": len(self.body), "headers": [(n.decode("latin-1"), v.decode("latin-1")[:60])
                                                        for n, v in self.headers]}


class Result:
    def __init__(self):
        self.responses = []
        self.problem = None
        self.detail = ""
        self.rest = b""

    def fail(self, label, detail=""):
        if self.problem is None:
            self.problem = label
            self.detail = detail
        return self


def _head(data, pos, r):
    """Parse status line + fields at pos. Returns (Resp, newpos) | (None, label)."""
    end = data.find(b"\r\n\r\n", pos)
    if end < 0:
        return None, "truncated-head"
    block = data[pos:end]
    lines = block.split(b"\r\n")
    resp = Resp()
    resp.start = pos
    resp.raw_head = data[pos:end + 4]
    resp.head_lines = lines
    m = STATUS_LINE.match(lines[0])
    if not m:
        return None, "bad-status-line"
    resp.version = (1, int(m.group(1)))
    resp.status = int(m.group(2))
    resp.reason = m.group(3)
    for ln in lines[1:]:
        c = ln.find(b":")
        if c <= 0:
            return None, "bad-header-line"
        name, value = ln[:c], ln[c + 1:]
        if not TOKEN.match(name):
            return None, "bad-header-name"
        if b"\r" in value or b"\n" in value or b"\0" in value:
            return None, "ctl-in-header-value"
        resp.headers.append((name, value.strip(b" \t")))
    if b"\n" in block.replace(b"\r\n", b"") or b"\r" in block.replace(b"\r\n", b""):
        return None, "bare-cr-or-lf-in-head"
    return resp, end + 4


def parse(data, req_methods, closed=True):
    """closed: the connection was observed closed by the server after `data` (needed to accept a
    close-delimited body)."""
    res = Result()
    pos = 0
    ri = 0
    interim = []
    while pos < len(data):
        resp, nxt = _head(data, pos, res)
        if resp is None:
            res.rest = data[pos:]
            if nxt == "truncated-head" and not data[pos:pos + 5] in (b"HTTP/",) and not b"HTTP/".startswith(data[pos:pos + 5]):
                return res.fail("garbage-between-responses", repr(data[pos:pos + 40]))
            return res.fail(nxt, repr(data[pos:pos + 80]))
        pos = nxt
        if 100 <= resp.status < 200 and resp.status != 101:
            resp.framing = "none"
            resp.complete = True
            resp.end = pos
            interim.append(resp)
            continue
        resp.interim = interim
        interim = []
        method = req_methods[ri] if ri < len(req_methods) else None
        ri += 1
        res.responses.append(resp)
        te = resp.get(b"transfer-encoding")
        cl = resp.get(b"content-length")
        if method == "HEAD" or resp.status in (204, 304):
            resp.framing = "none"
            resp.complete = True
            resp.end = pos
            continue
        if te:
            codings = [t.strip().lower() for v in te for t in v.split(b",")]
            if codings != [b"chunked"]:
                return res.fail("unexpected-transfer-encoding", repr(te))
            if cl:
                return res.fail("content-length-with-chunked")
            resp.framing = "chunked"
            body = []
            while True:
                e = data.find(b"\r\n", pos)
                if e < 0:
                    resp.body = b"".join(body)
                    res.rest = data[pos:]
                    return res.fail("truncated-chunked", "no chunk-size line")
                line = data[pos:e]
                if not HEXSIZE.match(line):
                    resp.body = b"".join(body)
                    return res.fail("bad-chunk-size", repr(line[:30]))
                n = int(line, 16)
                pos = e + 2
                if n == 0:
                    resp.nlast_chunks += 1
                    break
                chunk = data[pos:pos + n]
                body.append(chunk)
                if len(chunk) < n:
                    resp.body = b"".join(body)
                    return res.fail("truncated-chunked", "chunk data short")
                pos += n
                if data[pos:pos + 2] != b"\r\n":
                    resp.body = b"".join(body)
                    if len(data) - pos < 2:
                        return res.fail("truncated-chunked", "chunk terminator missing")
                    return res.fail("bad-chunk-terminator", repr(data[pos:pos + 2]))
                pos += 2
            resp.body = b"".join(body)
            # trailer section: expect immediate CRLF (gunicorn sends no trailers)
            if data[pos:pos + 2] != b"\r\n":
                if len(data) - pos < 2:
                    return res.fail("truncated-chunked", "final CRLF missing")
                return res.fail("unexpected-trailer-or-garbage", repr(data[pos:pos + 30]))
            pos += 2
            resp.complete = True
            resp.end = pos
            continue
        if cl:
            if len(cl) > 1 or not cl[0].isdigit():
                return res.fail("bad-content-length", repr(cl))
            n = int(cl[0])
            resp.framing = "cl"
            resp.body = data[pos:pos + n]
            if len(resp.body) < n:
                res.rest = b""
                return res.fail("truncated-body", "got %d of %d" % (len(resp.body), n))
            pos += n
            resp.complete = True
            resp.end = pos
            continue
        # neither: body runs to connection close
        resp.framing = "close"
        resp.body = data[pos:]
        pos = len(data)
        resp.complete = bool(closed)
        resp.end = pos
    if interim:
        res.fail("interim-without-final")
    return res
