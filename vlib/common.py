"""Shared infrastructure for every check: repo import guard, verdict discipline,
evidence writer, known-findings matching, replay files, subprocess fan-out.

Nothing here imports gunicorn at module import time; `use_repo()` does, and asserts
that the module really comes from /repo's current working tree.
"""
import hashlib
import json
import os
import random
import signal
import subprocess
import sys
import tempfile
import time
import traceback

VERIF = os.path.dirname(os.path.dirname(os.path.abspath(__file__)))
REPO = os.environ.get("VERIF_REPO", "/repo")
PY = os.environ.get("VERIF_PY", "/venv/bin/python")
NCPU = int(os.environ.get("VERIF_NCPU", str(os.cpu_count() or 4)))

EXIT_HELD, EXIT_VIOLATED, EXIT_INCONCLUSIVE = 0, 1, 2


def use_repo():
    """Put /repo first on sys.path and assert gunicorn is imported from there."""
    if sys.path[0] != REPO:
        sys.path.insert(0, REPO)
    import gunicorn
    here = os.path.realpath(os.path.dirname(gunicorn.__file__))
    want = os.path.realpath(os.path.join(REPO, "gunicorn"))
    if here != want:
        raise RuntimeError("gunicorn imported from %s, wanted %s" % (here, want))
    return gunicorn


def seed_from_env():
    try:
        return int(os.environ.get("VERIF_SEED", "0"))
    except ValueError:
        return 0


def sha12(obj):
    if not isinstance(obj, (bytes, bytearray)):
        obj = json.dumps(obj, sort_keys=True, default=jsonable).encode()
    return hashlib.sha1(obj).hexdigest()[:12]


def jsonable(o):
    if isinstance(o, (bytes, bytearray)):
        return {"hex": bytes(o).hex()}
    if isinstance(o, (set, frozenset)):
        return sorted(o, key=repr)
    if isinstance(o, tuple):
        return list(o)
    return repr(o)


def hexs(b):
    """Readable form of bytes for samples: latin-1 with escapes."""
    return repr(bytes(b))[2:-1]


class Findings:
    """known_findings.json: list of {"property","mechanism","what","status"}.
    status = "known" (recorded, suppresses matching violations with a KNOWN-FINDING
    line) or "fixed" (documentation only; suppresses nothing)."""

    def __init__(self, prop):
        self.prop = prop
        path = os.path.join(VERIF, "known_findings.json")
        self.known = {}
        try:
            with open(path) as f:
                data = json.load(f)
        except FileNotFoundError:
            data = {"findings": []}
        for e in data.get("findings", []):
            if e.get("property") == prop and e.get("status") == "known":
                self.known[e["mechanism"]] = e

    def match(self, mechanism):
        return self.known.get(mechanism)


class Run:
    """Collects counters, violations and samples for one check run and turns them
    into a verdict + evidence file."""

    def __init__(self, prop, tier, seed, level, rule):
        self.prop = prop
        self.tier = tier
        self.seed = seed
        self.level = level
        self.rule = rule
        self.t0 = time.time()
        self.evaluations = 0
        self.distinct = set()
        self.n_distinct_extra = 0
        self.reach = {}
        self.required_reach = []
        self.samples = []
        self.violations = []      # (mechanism, summary, case)
        self.known_hits = {}      # mechanism -> count
        self.inconclusive = []    # reasons
        self.info = {}
        self.assumptions = []
        self.findings = Findings(prop)
        self.extra_cov = {}

    # -- counters -------------------------------------------------------------
    def count(self, key, n=1):
        self.reach[key] = self.reach.get(key, 0) + n

    def require(self, *keys):
        for k in keys:
            if k not in self.required_reach:
                self.required_reach.append(k)
            self.reach.setdefault(k, 0)

    def case(self, signature=None, nontrivial=True):
        self.evaluations += 1
        if nontrivial and signature is not None:
            self.distinct.add(signature if isinstance(signature, (str, int)) else sha12(signature))

    def sample(self, obj, cap=6):
        if len(self.samples) < cap:
            self.samples.append(obj)

    # -- verdict pieces -------------------------------------------------------
    def violation(self, mechanism, summary, case):
        """mechanism: short stable classifier string (what kind of failure);
        case: JSON-serialisable witness that --replay can re-run."""
        k = self.findings.match(mechanism)
        if k is not None:
            self.known_hits[mechanism] = self.known_hits.get(mechanism, 0) + 1
            if mechanism + "#sample" not in self.info:
                self.info[mechanism + "#sample"] = summary
            return False
        self.violations.append((mechanism, summary, case))
        return True

    def enough(self, n=40):
        """True once this (shard) run holds so many witnesses that continuing only costs time - broken trees
        often make every case slow (timeouts); the verdict is already 'violated'."""
        return len(self.violations) >= n

    def inconclusive_because(self, reason):
        self.inconclusive.append(reason)

    def merge(self, part):
        """Merge a shard result (dict produced by Run.export)."""
        self.evaluations += part["evaluations"]
        self.distinct.update(part["distinct"])
        for k, v in part["reach"].items():
            self.reach[k] = self.reach.get(k, 0) + v
        for s in part["samples"]:
            self.sample(s)
        for m, s, c in part["violations"]:
            self.violations.append((m, s, c))
        for m, n in part["known_hits"].items():
            self.known_hits[m] = self.known_hits.get(m, 0) + n
        for k, v in part["info"].items():
            if isinstance(v, (int, float)) and isinstance(self.info.get(k, 0), (int, float)) \
                    and not k.endswith("#max"):
                self.info[k] = self.info.get(k, 0) + v
            elif k.endswith("#max"):
                self.info[k] = max(self.info.get(k, v), v)
            else:
                self.info.setdefault(k, v)
        self.inconclusive.extend(part["inconclusive"])

    def export(self):
        return {
            "evaluations": self.evaluations,
            "distinct": sorted(self.distinct),
            "reach": self.reach,
            "samples": self.samples,
            "violations": self.violations[:50],
            "known_hits": self.known_hits,
            "info": self.info,
            "inconclusive": self.inconclusive,
        }

    # -- finish ---------------------------------------------------------------
    def finish(self):
        wall = time.time() - self.t0
        missing = [k for k in self.required_reach if not self.reach.get(k)]
        if missing:
            self.inconclusive.append("monitor clause never reached: " + ",".join(missing))
        evdir = os.environ.get("VERIF_EVIDENCE_DIR") or os.path.join(VERIF, "evidence")
        os.makedirs(evdir, exist_ok=True)
        replay_paths = []
        seen_mech = {}
        for mech, summary, case in self.violations:
            seen_mech[mech] = seen_mech.get(mech, 0) + 1
            if seen_mech[mech] > 3:
                continue
            d = os.path.join(os.environ.get("VERIF_EVIDENCE_DIR") or VERIF, "replays", self.prop)
            os.makedirs(d, exist_ok=True)
            p = os.path.join(d, sha12([mech, case]) + ".json")
            with open(p, "w") as f:
                json.dump({"property": self.prop, "mechanism": mech, "summary": summary,
                           "case": case}, f, indent=1, default=jsonable)
            replay_paths.append((mech, summary, p))
        nd = len(self.distinct) + self.n_distinct_extra
        cov = {
            "evaluations": int(self.evaluations),
            "distinct_nontrivial": int(nd),
            "rule": self.rule,
            "samples": self.samples or ["(no sample recorded)"],
            "reach": self.reach,
            "info": self.info,
            "known_finding_hits": self.known_hits,
            "violation_mechanisms": seen_mech,
            "inconclusive_reasons": self.inconclusive[:20],
        }
        cov.update(self.extra_cov)
        ev = {
            "property_id": self.prop,
            "tier": self.tier,
            "seed": int(self.seed),
            "level": self.level,
            "coverage": cov,
            "assumptions": self.assumptions,
            "wall_s": round(wall, 2),
            "violations": len(self.violations),
            "verdict": ("violated" if self.violations else
                        "inconclusive" if self.inconclusive else "held"),
        }
        with open(os.path.join(evdir, self.prop + ".json"), "w") as f:
            json.dump(ev, f, indent=1, default=jsonable)
        # stdout
        print("%s tier=%s seed=%d evaluations=%d distinct_nontrivial=%d wall=%.1fs" % (
            self.prop, self.tier, self.seed, self.evaluations, nd, wall))
        print("reach: " + json.dumps(self.reach, sort_keys=True))
        for mech, n in sorted(self.known_hits.items()):
            e = self.findings.match(mech)
            print("KNOWN-FINDING: property=%s %s [%s] (%d witnesses this run)" % (
                self.prop, e["what"], mech, n))
        if self.violations:
            for mech, summary, p in replay_paths:
                print("VIOLATION property=%s replay=%s" % (self.prop, p))
                print("  mechanism=%s %s" % (mech, summary))
            print("%s: VIOLATED (%d witnesses, %d mechanisms)" % (
                self.prop, len(self.violations), len(seen_mech)))
            return EXIT_VIOLATED
        if self.inconclusive:
            for r in self.inconclusive[:10]:
                print("INCONCLUSIVE property=%s reason=%s" % (self.prop, r))
            return EXIT_INCONCLUSIVE
        print("%s: held on everything explored" % self.prop)
        return EXIT_HELD


def fanout(prop, shards, timeout, env=None, nproc=None):
    """Run `vcheck --shard` subprocesses, one per element of `shards` (JSON-able dicts),
    at most nproc at a time. Returns list of (shard, result_dict | None, err_text)."""
    nproc = nproc or NCPU
    vcheck = os.path.join(VERIF, "vcheck")
    pending = list(enumerate(shards))
    running = []
    results = [None] * len(shards)
    e = dict(os.environ)
    e.setdefault("PYTHONHASHSEED", "0")
    if env:
        e.update(env)
    deadline = time.time() + timeout
    while pending or running:
        while pending and len(running) < nproc:
            i, sh = pending.pop(0)
            fo, fe = tempfile.TemporaryFile(), tempfile.TemporaryFile()
            hb = tempfile.NamedTemporaryFile(prefix="gunicorn-verif-hb-", dir=os.environ.get("VERIF_SCRATCH", "/var/tmp"))
            p = subprocess.Popen([PY, vcheck, prop, "--shard", json.dumps(sh)],
                                 stdout=fo, stderr=fe, env=dict(e, VERIF_SHARD_HB=hb.name), cwd=VERIF)
            running.append((i, sh, p, (fo, fe, hb)))
        still = []
        for i, sh, p, files in running:
            if p.poll() is None:
                if time.time() > deadline:
                    p.kill()
                    p.wait()
                    results[i] = (sh, None, "shard watchdog expired")
                    for f in files:
                        f.close()
                else:
                    still.append((i, sh, p, files))
                continue
            files[0].seek(0)
            files[1].seek(0)
            out, err = files[0].read(), files[1].read()
            stalled = None
            if p.returncode == -signal.SIGVTALRM:
                try:
                    with open(files[2].name) as f:
                        stalled = json.load(f)
                except Exception:
                    stalled = None
            for f in files:
                f.close()
            if stalled is not None:
                # cpu_guard(): one case used up its CPU-time budget (never a wall-clock verdict) - the kernel ended the
                # shard; the case it had announced is the witness
                results[i] = (sh, {"evaluations": 1, "distinct": [], "reach": {}, "samples": [], "known_hits": {}, "info": {},
                                   "inconclusive": [],
                                   "violations": [[stalled["mechanism"], "one case consumed more than %d s of CPU time without "
                                                   "returning (the shard process was ended by its CPU-time timer)"
                                                   % stalled["budget"], stalled["case"]]]}, err.decode()[-2000:])
                continue
            try:
                line = out.decode().strip().splitlines()[-1]
                results[i] = (sh, json.loads(line), err.decode()[-2000:])
            except Exception:
                results[i] = (sh, None, "rc=%s out=%r err=%r" % (
                    p.returncode, out[-500:], err[-2000:]))
        running = still
        if running:
            time.sleep(0.05)
    return results


def run_sharded(run, shards, timeout, env=None, nproc=None):
    for sh, res, err in fanout(run.prop, shards, timeout, env=env, nproc=nproc):
        if res is None:
            run.inconclusive_because("shard %s failed: %s" % (json.dumps(sh)[:80], err[-400:]))
        else:
            run.merge(res)


CPU_STALL = "one-input-keeps-the-worker-computing-without-bound"


def cpu_guard(case, budget=120, mechanism=CPU_STALL):
    """Announce the case about to run and give it `budget` seconds of *CPU time* of this process (ITIMER_VIRTUAL, default
    action: the kernel ends the process - a handler could not run while C code such as the regex engine holds the GIL).
    The parent (fanout) turns that death into a violation whose witness is the announced case. Cases cost milliseconds of CPU
    on a tree that holds the property; sleeping and waiting for I/O do not count, so machine load cannot fire this."""
    hb = os.environ.get("VERIF_SHARD_HB")
    if not hb:
        return
    with open(hb, "w") as f:
        json.dump({"mechanism": mechanism, "budget": budget, "case": case}, f, default=jsonable)
    signal.setitimer(signal.ITIMER_VIRTUAL, budget)


def cpu_guard_off():
    signal.setitimer(signal.ITIMER_VIRTUAL, 0)


def replay_cpu_guarded(fn, path, prop, budget=120):
    """Replay of a CPU_STALL witness: run fn(path) in a child with the same CPU-time budget."""
    pid = os.fork()
    if pid == 0:
        signal.setitimer(signal.ITIMER_VIRTUAL, budget)
        rc = 3
        try:
            rc = fn(path)
        finally:
            sys.stdout.flush()
            os._exit(rc or 0)
    _, st = os.waitpid(pid, 0)
    if os.WIFSIGNALED(st) and os.WTERMSIG(st) == signal.SIGVTALRM:
        print("VIOLATION property=%s replay=%s\n  %s: the case used more than %d s of CPU time without returning" % (
            prop, path, CPU_STALL, budget))
        return 1
    return os.WEXITSTATUS(st) if os.WIFEXITED(st) else 3


def shard_main(fn, shard):
    """Called in the shard subprocess: fn(shard) -> Run; prints the export as one JSON line."""
    try:
        r = fn(shard)
        cpu_guard_off()
        sys.stdout.write("\n" + json.dumps(r.export(), default=jsonable) + "\n")
        sys.stdout.flush()
        return 0
    except Exception:
        traceback.print_exc()
        return 3


def rng_for(seed, *parts):
    h = hashlib.sha256(("%d|" % seed + "|".join(str(p) for p in parts)).encode()).digest()
    return random.Random(int.from_bytes(h[:8], "big"))


def scratch_dir(prefix):
    import tempfile
    base = os.environ.get("VERIF_SCRATCH", "/var/tmp")
    os.makedirs(base, exist_ok=True)
    return tempfile.mkdtemp(prefix="gunicorn-verif-%s-" % prefix, dir=base)
