#!/venv/bin/python
"""Mutation validation of the monitors (DESIGN.md section 4.2).

  tools/mutate.py [--only NAME_SUBSTR] [--tests] [--jobs N]

For every mutant in validation/mutants.py: create a scratch git worktree of /repo under /var/tmp,
apply the textual change, optionally run the repository's own tests on it, run the quick tier of the
listed checks with VERIF_REPO pointing at the worktree, record whether a VIOLATION was reported,
and remove the worktree.  Results are written to validation/mutants.md (and printed).
"""
import argparse
import concurrent.futures as cf
import os
import re
import shutil
import subprocess
import sys
import time

HERE = os.path.dirname(os.path.dirname(os.path.abspath(__file__)))
sys.path.insert(0, HERE)
REPO = "/repo"


def sh(cmd, **kw):
    return subprocess.run(cmd, shell=True, capture_output=True, text=True, **kw)


def run_mutant(m, run_tests, evdir):
    name = m["name"]
    wt = "/var/tmp/gv-mut-%s-%d" % (re.sub(r"[^A-Za-z0-9]+", "-", name)[:40], os.getpid())
    sh("git -C %s worktree remove --force %s" % (REPO, wt))
    r = sh("git -C %s worktree add --detach %s HEAD" % (REPO, wt))
    if r.returncode:
        return {"name": name, "error": r.stderr[-300:]}
    res = {"name": name, "checks": {}, "prop": m.get("prop", "")}
    try:
        for path, old, new in m["edits"]:
            p = os.path.join(wt, path)
            s = open(p).read()
            if s.count(old) != 1:
                res["error"] = "edit does not apply uniquely in %s (%d matches)" % (path, s.count(old))
                return res
            open(p, "w").write(s.replace(old, new))
        r = sh("%s -m compileall -q %s/gunicorn" % ("/venv/bin/python", wt))
        if r.returncode:
            res["error"] = "does not compile: " + r.stdout[-300:]
            return res
        if run_tests:
            t0 = time.time()
            r = sh("cd %s && /venv/bin/python -m pytest -q -x -p no:cacheprovider --no-cov tests 2>&1 | tail -3" % wt,
                   timeout=600)
            res["tests"] = "pass" if re.search(r"\b\d+ passed", r.stdout) and "failed" not in r.stdout else "FAIL"
            res["tests_s"] = round(time.time() - t0, 1)
        for chk in m["checks"]:
            env = dict(os.environ, VERIF_REPO=wt, VERIF_EVIDENCE_DIR=evdir, VERIF_NCPU=os.environ.get("MUT_NCPU", "4"))
            t0 = time.time()
            try:
                r = subprocess.run([os.path.join(HERE, "vcheck"), chk, "--tier", "quick"], capture_output=True,
                                   text=True, env=env, timeout=1500, cwd=HERE)
                out = r.stdout
                mechs = sorted(set(re.findall(r"mechanism=(\S+)", out)))
                res["checks"][chk] = {"rc": r.returncode, "caught": r.returncode == 1 and "VIOLATION" in out,
                                      "mechanisms": mechs[:5], "s": round(time.time() - t0, 1),
                                      "tail": out.strip().splitlines()[-1][:200] if out.strip() else r.stderr[-200:]}
            except subprocess.TimeoutExpired:
                res["checks"][chk] = {"rc": None, "caught": False, "mechanisms": [], "s": 1500, "tail": "timeout"}
    finally:
        sh("git -C %s worktree remove --force %s" % (REPO, wt))
        shutil.rmtree(wt, ignore_errors=True)
    return res


def main():
    ap = argparse.ArgumentParser()
    ap.add_argument("--only", default="")
    ap.add_argument("--tests", action="store_true")
    ap.add_argument("--jobs", type=int, default=4)
    a = ap.parse_args()
    from validation.mutants import MUTANTS
    todo = [m for m in MUTANTS if a.only in m["name"] or a.only in m.get("prop", "")]
    evdir = "/var/tmp/gv-mut-evidence-%d" % os.getpid()
    os.makedirs(evdir, exist_ok=True)
    rows = []
    with cf.ThreadPoolExecutor(a.jobs) as ex:
        for res in ex.map(lambda m: run_mutant(m, a.tests, evdir), todo):
            rows.append(res)
            if "error" in res:
                print("%-48s ERROR %s" % (res["name"], res["error"]))
                continue
            for chk, c in res["checks"].items():
                print("%-48s %s %-7s tests=%s %5.1fs %s" % (res["name"], chk, "CAUGHT" if c["caught"] else "MISSED",
                                                          res.get("tests", "-"), c["s"], ",".join(c["mechanisms"])[:90]))
            sys.stdout.flush()
    shutil.rmtree(evdir, ignore_errors=True)
    sh("git -C %s worktree prune" % REPO)
    if not a.only:
        with open(os.path.join(HERE, "validation", "mutants.md"), "w") as f:
            f.write("# Own property-breaking edits vs. quick tiers (tools/mutate.py)\n\n")
            f.write("| mutant | property | repo tests | check | caught | seconds | mechanisms |\n|---|---|---|---|---|---|---|\n")
            for res in rows:
                if "error" in res:
                    f.write("| %s | %s | - | - | ERROR: %s | | |\n" % (res["name"], res.get("prop", ""), res["error"][:80]))
                    continue
                for chk, c in res["checks"].items():
                    f.write("| %s | %s | %s | %s | %s | %.0f | %s |\n" % (
                        res["name"], res.get("prop", ""), res.get("tests", "-"), chk,
                        "yes" if c["caught"] else "**NO** (rc=%s)" % c["rc"], c["s"], ", ".join(c["mechanisms"])[:120]))
    else:
        # a partial run replaces the rows of the mutants it ran in the existing table
        path = os.path.join(HERE, "validation", "mutants.md")
        if os.path.exists(path):
            lines = open(path).read().splitlines()
            ran = set(r["name"] for r in rows)
            keep = [ln for ln in lines if not (ln.startswith("| ") and ln.split("|")[1].strip() in ran)]
            for res in rows:
                if "error" in res:
                    keep.append("| %s | %s | - | - | ERROR: %s | | |" % (res["name"], res.get("prop", ""), res["error"][:80]))
                    continue
                for chk, c in res["checks"].items():
                    keep.append("| %s | %s | %s | %s | %s | %.0f | %s |" % (
                        res["name"], res.get("prop", ""), res.get("tests", "-"), chk,
                        "yes" if c["caught"] else "**NO** (rc=%s)" % c["rc"], c["s"], ", ".join(c["mechanisms"])[:120]))
            open(path, "w").write("\n".join(keep) + "\n")
    missed = [r["name"] for r in rows if "error" in r or not all(c["caught"] for c in r["checks"].values())]
    print("missed/errors:", missed)


if __name__ == "__main__":
    main()
