#!/venv/bin/python
"""Regenerates MANIFEST.json from the table below and validates it against the schema
(with python3-vt's jsonschema when available)."""
import json
import os
import subprocess
import sys

HERE = os.path.dirname(os.path.dirname(os.path.abspath(__file__)))
sys.path.insert(0, HERE)
from tools.manifest_table import CHECKS, NOT_YET, ENGINES, HOOK_COMMITS  # noqa: E402

props = [json.loads(l) for l in open(os.path.join(HERE, "properties.jsonl"))]
ids = [p["id"] for p in props]

checks = []
for pid in ids:
    c = CHECKS.get(pid)
    if not c:
        continue
    checks.append({
        "property_id": pid,
        "quick_cmd": "./vcheck %s --tier quick" % pid,
        "thorough_cmd": "./vcheck %s --tier thorough" % pid,
        "evidence_file": "evidence/%s.json" % pid,
        "replay_cmd_template": "./vcheck %s --replay {path}" % pid,
        "engine": c["engine"],
        "level_claimed": {"category": c["level"], "text": c["text"], "design_ref": c["design_ref"]},
        "level_note": c["note"],
        "technique": c["technique"],
    })
na = [{"property_id": pid, "reason": NOT_YET.get(pid, "check not built yet in this round; see DESIGN.md")}
      for pid in ids if pid not in CHECKS]
m = {
    "version": 1,
    "setup_cmd": "mkdir -p evidence replays && /venv/bin/python -c \"import sys; sys.path.insert(0,'/repo'); import gunicorn; print(gunicorn.__file__)\"",
    "hooks": {
        "guard": "GUNICORN_VERIF",
        "enable": "no source hooks: checks import /repo's working tree directly (PYTHONPATH=/repo) and observe at socket / process / file boundaries and through gunicorn's own server-hook settings",
        "baseline_off_cmd": "cd /repo && /venv/bin/python -m pytest -ra -q -p no:cacheprovider --timeout=900 --continue-on-collection-errors",
        "source_commits": HOOK_COMMITS,
        "add_only": True,
    },
    "engines": ENGINES,
    "checks": checks,
    "notes": "Runtime monitoring only. Exit codes: 0 held, 1 VIOLATION, 2 inconclusive (never printed as VIOLATION). "
             "Known findings: known_findings.json (keyed by mechanism). See DESIGN.md.",
    "not_applicable": na,
}
with open(os.path.join(HERE, "MANIFEST.json"), "w") as f:
    json.dump(m, f, indent=1)
try:
    r = subprocess.run(["python3-vt", "-c", """
import json, jsonschema, sys
jsonschema.validate(json.load(open(sys.argv[1])), json.load(open('/root/.vp/MANIFEST.schema.json')))
print('MANIFEST.json valid:', len(json.load(open(sys.argv[1]))['checks']), 'checks')
""", os.path.join(HERE, "MANIFEST.json")], capture_output=True, text=True, timeout=60)
    print(r.stdout + r.stderr[-500:])
except Exception as e:
    print("validation skipped:", e)
