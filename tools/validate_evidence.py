#!/usr/bin/env python3-vt
import json, sys, glob, jsonschema
schema = json.load(open('/root/.vp/EVIDENCE.schema.json'))
ok = True
for f in sorted(glob.glob('/verif/evidence/*.json')):
    try:
        jsonschema.validate(json.load(open(f)), schema)
        d = json.load(open(f))
        print("valid  ", f, d["tier"], d["coverage"]["evaluations"], d["coverage"]["distinct_nontrivial"], d.get("verdict"))
    except Exception as e:
        ok = False
        print("INVALID", f, str(e)[:300])
sys.exit(0 if ok else 1)
