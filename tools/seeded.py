#!/venv/bin/python
"""tools/seeded.py ingest <Cxx> [--checks Cxx,Cyy]   copy /tmp/seed-<Cxx>-out/<n>/ into seeded/<Cxx>-<n>/, confirm it
                                                     (patch applies, repository tests pass, demo fails with / passes without),
                                                     run the quick tier of the property's check against it, write meta.json
   tools/seeded.py rerun [name-substring]            re-run the checks for the kept seeded changes and refresh meta.json
Everything happens in scratch git worktrees of /repo under /var/tmp (removed afterwards); /repo itself is never modified."""
import json, os, re, shutil, subprocess, sys, time

HERE = os.path.dirname(os.path.dirname(os.path.abspath(__file__)))
REPO = "/repo"
PY = "/venv/bin/python"


def sh(cmd, **kw):
    return subprocess.run(cmd, shell=True, capture_output=True, text=True, **kw)


def worktree(tag):
    wt = "/var/tmp/gv-seed-%s-%d" % (tag, os.getpid())
    sh("git -C %s worktree remove --force %s" % (REPO, wt))
    r = sh("git -C %s worktree add --detach %s HEAD" % (REPO, wt))
    if r.returncode:
        raise RuntimeError(r.stderr)
    return wt


def drop(wt):
    sh("git -C %s worktree remove --force %s" % (REPO, wt))
    shutil.rmtree(wt, ignore_errors=True)
    sh("git -C %s worktree prune" % REPO)


def evaluate(d, prop, checks, confirm=True):
    name = os.path.basename(d)
    meta_path = os.path.join(d, "meta.json")
    meta = json.load(open(meta_path)) if os.path.exists(meta_path) else {}
    meta.update({"property": prop, "name": name})
    notes = os.path.join(d, "notes.md")
    if os.path.exists(notes) and "needs_to_manifest" not in meta:
        txt = open(notes, errors="replace").read()
        m = re.search(r"(?is)(needs?|manifest|trigger)[^\n]*\n(.{0,900})", txt)
        meta["needs_to_manifest"] = (m.group(0) if m else txt[:900]).strip()[:1000]
        meta["written_by"] = "independent sub-agent given only the property text and a scratch worktree"
    wt = worktree(name)
    try:
        if confirm:
            clean = sh("%s %s %s" % (PY, os.path.join(d, "demo.py"), wt), timeout=400)
            meta["demo_on_clean_tree_rc"] = clean.returncode
        r = sh("git -C %s apply %s" % (wt, os.path.join(d, "patch.diff")))
        meta["patch_applies"] = r.returncode == 0
        if r.returncode:
            meta["error"] = r.stderr[-300:]
            json.dump(meta, open(meta_path, "w"), indent=1)
            return meta
        meta["files_touched"] = sh("git -C %s diff --stat | tail -1" % wt).stdout.strip()
        if confirm:
            t = sh("cd %s && %s -m pytest -q -x -p no:cacheprovider --no-cov tests 2>&1 | tail -2" % (wt, PY), timeout=900)
            meta["repo_tests"] = t.stdout.strip().splitlines()[-1] if t.stdout.strip() else t.stderr[-100:]
            ch = sh("%s %s %s" % (PY, os.path.join(d, "demo.py"), wt), timeout=400)
            meta["demo_on_changed_tree_rc"] = ch.returncode
            meta["demo_output_tail"] = (ch.stdout + ch.stderr)[-300:]
        meta.setdefault("checks", {})
        evdir = "/var/tmp/gv-seed-ev-%d" % os.getpid()
        for chk in checks:
            env = dict(os.environ, VERIF_REPO=wt, VERIF_EVIDENCE_DIR=evdir, VERIF_NCPU=os.environ.get("SEED_NCPU", "8"))
            t0 = time.time()
            try:
                r = subprocess.run([os.path.join(HERE, "vcheck"), chk, "--tier", "quick"], capture_output=True, text=True, env=env,
                                   timeout=2400, cwd=HERE)
                mechs = sorted(set(re.findall(r"mechanism=(\S+)", r.stdout)))
                meta["checks"][chk] = {"tier": "quick", "rc": r.returncode, "caught": r.returncode == 1 and "VIOLATION" in r.stdout,
                                       "mechanisms": mechs[:8], "seconds": round(time.time() - t0, 1),
                                       "verif_commit": sh("git -C %s log --format=%%h -1" % HERE).stdout.strip()}
            except subprocess.TimeoutExpired:
                meta["checks"][chk] = {"tier": "quick", "rc": "timeout", "caught": False, "mechanisms": [], "seconds": 2400}
        shutil.rmtree(evdir, ignore_errors=True)
        meta["what_was_run"] = ("scratch worktree of /repo HEAD %s + git apply patch.diff; repository tests; demo.py on clean and changed tree; "
                                "./vcheck <check> --tier quick with VERIF_REPO=<worktree>" % sh("git -C %s log --format=%%h -1" % REPO).stdout.strip())
    finally:
        drop(wt)
    json.dump(meta, open(meta_path, "w"), indent=1)
    return meta


def main():
    cmd = sys.argv[1]
    if cmd == "ingest":
        prop = sys.argv[2]
        checks = [prop]
        if "--checks" in sys.argv:
            checks = sys.argv[sys.argv.index("--checks") + 1].split(",")
        src = "/tmp/seed-%s-out" % prop
        tag = ""
        if "--src" in sys.argv:
            src = sys.argv[sys.argv.index("--src") + 1]
        if "--tag" in sys.argv:
            tag = sys.argv[sys.argv.index("--tag") + 1] + "-"
        for n in sorted(os.listdir(src)):
            s = os.path.join(src, n)
            if not os.path.isdir(s) or not os.path.exists(os.path.join(s, "patch.diff")):
                continue
            d = os.path.join(HERE, "seeded", "%s-%s%s" % (prop, tag, n))
            if os.path.exists(d):
                shutil.rmtree(d)
            shutil.copytree(s, d)
            for junk in ("__pycache__",):
                shutil.rmtree(os.path.join(d, junk), ignore_errors=True)
            m = evaluate(d, prop, checks)
            print(json.dumps({k: m.get(k) for k in ("name", "patch_applies", "repo_tests", "demo_on_clean_tree_rc",
                                                     "demo_on_changed_tree_rc", "checks")}, indent=1))
    elif cmd == "reconfirm":
        sub = sys.argv[2]
        for name in sorted(os.listdir(os.path.join(HERE, "seeded"))):
            d = os.path.join(HERE, "seeded", name)
            if sub in name and os.path.exists(os.path.join(d, "meta.json")):
                meta = json.load(open(os.path.join(d, "meta.json")))
                m = evaluate(d, meta["property"], list(meta.get("checks", {})) or [meta["property"]], confirm=True)
                print(name, "clean", m.get("demo_on_clean_tree_rc"), "changed", m.get("demo_on_changed_tree_rc"), m.get("repo_tests"),
                      {c: (v["caught"], v["mechanisms"][:3]) for c, v in m["checks"].items()})
    elif cmd == "rerun":
        sub = sys.argv[2] if len(sys.argv) > 2 and not sys.argv[2].startswith("--") else ""
        extra = sys.argv[sys.argv.index("--checks") + 1].split(",") if "--checks" in sys.argv else []
        for name in sorted(os.listdir(os.path.join(HERE, "seeded"))):
            d = os.path.join(HERE, "seeded", name)
            if sub in name and os.path.exists(os.path.join(d, "meta.json")):
                meta = json.load(open(os.path.join(d, "meta.json")))
                checks = list(meta.get("checks", {})) or [meta["property"]]
                checks += [c for c in extra if c not in checks]
                m = evaluate(d, meta["property"], checks, confirm=False)
                print(name, {c: (v["caught"], v["mechanisms"][:3]) for c, v in m["checks"].items()})


if __name__ == "__main__":
    main()
