#!/venv/bin/python
"""tools/sweep.py [--tier quick|thorough] seed...  - run every claimed check for each seed, report non-zero exits."""
import json, os, subprocess, sys, time
HERE = os.path.dirname(os.path.dirname(os.path.abspath(__file__)))
args = sys.argv[1:]
tier = "quick"
if args and args[0] == "--tier":
    tier = args[1]; args = args[2:]
only = None
if args and args[0] == "--only":
    only = args[1].split(","); args = args[2:]
seeds = [int(a) for a in args] or [0]
m = json.load(open(os.path.join(HERE, "MANIFEST.json")))
bad = []
for seed in seeds:
    for c in m["checks"]:
        pid = c["property_id"]
        if only and pid not in only:
            continue
        t0 = time.time()
        env = dict(os.environ, VERIF_SEED=str(seed), VERIF_EVIDENCE_DIR=os.environ.get("SWEEP_EVIDENCE", "/var/tmp/gv-sweep-ev"))
        try:
            r = subprocess.run([os.path.join(HERE, "vcheck"), pid, "--tier", tier], capture_output=True, text=True, env=env, cwd=HERE,
                               timeout=7200)
            rc, out = r.returncode, r.stdout
        except subprocess.TimeoutExpired:
            rc, out = "timeout", ""
        line = "seed=%d %s rc=%s %.0fs" % (seed, pid, rc, time.time() - t0)
        if rc != 0:
            bad.append(line)
            tail = [l[:300] for l in out.splitlines() if l.startswith(("VIOLATION", "INCONCLUSIVE", "  mechanism"))][:6]
            line += "\n    " + "\n    ".join(tail)
        print(line, flush=True)
print("BAD:", bad)
