#!/venv/bin/python
"""Writes validation/seeded.md: one row per kept independently written breaking change (seeded/*/meta.json)."""
import json, os
HERE = os.path.dirname(os.path.dirname(os.path.abspath(__file__)))
rows = []
for name in sorted(os.listdir(os.path.join(HERE, "seeded"))):
    mp = os.path.join(HERE, "seeded", name, "meta.json")
    if not os.path.exists(mp):
        continue
    m = json.load(open(mp))
    ok = (m.get("patch_applies") and str(m.get("repo_tests", "")).startswith("260 passed") and m.get("demo_on_clean_tree_rc") == 0
          and m.get("demo_on_changed_tree_rc") == 1)
    for chk, c in (m.get("checks") or {}).items():
        if not c:
            continue
        if m.get("neutralised_by_fix"):
            # a later fix commit in /repo restored what this change removed: it no longer breaks the property (see meta.json)
            rows.append((name, m.get("property"), "no longer breaking (neutralised by a later fix commit)", chk, "n/a", c.get("seconds"),
                         "", (m.get("files_touched") or "").strip()))
            continue
        rows.append((name, m.get("property"), "yes" if ok else "NOT CONFIRMED", chk, "yes" if c.get("caught") else "**NO** (rc=%s)" % c.get("rc"),
                     c.get("seconds"), ", ".join(c.get("mechanisms", [])[:3]), (m.get("files_touched") or "").strip()))
with open(os.path.join(HERE, "validation", "seeded.md"), "w") as f:
    f.write("# Independently written breaking changes (seeded/) vs. the quick tiers\n\n"
            "Each change was written by a fresh sub-agent that saw only the property text and a scratch worktree; it compiles, passes the 260 "
            "repository tests, and comes with a demonstration that fails with it and passes without it (confirmed here: column 3). "
            "`tools/seeded.py` applies it in a scratch worktree and runs the check with VERIF_REPO pointing there.\n\n"
            "| change | property | confirmed | check | caught | seconds | mechanisms reported | touched |\n|---|---|---|---|---|---|---|---|\n")
    for r in rows:
        f.write("| %s | %s | %s | %s | %s | %s | %s | %s |\n" % r)
n = len(set(r[0] for r in rows))
caught = len(set(r[0] for r in rows if r[4] == "yes"))
print("%d changes, %d caught by at least one listed check" % (n, caught))
